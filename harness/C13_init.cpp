// C13: the configured tasking thread count is reported and never exceeded.
// Engine seqmc: every history of initTaskingSystem(n) calls of length <= 3 over
// n in {-1,0,1,2,3,5,2*hw}, each replayed in a fresh process (the tasking handle is process
// global), one build of this file per backend.  After every call numTaskingThreads() is
// compared with the model; after the last call a rendezvous probe inside parallel_for tries
// to assemble one thread more than allowed (observational for TBB / OpenMP schedules).
#include "common/vreport.h"

#include "rkcommon/tasking/parallel_for.h"
#include "rkcommon/tasking/tasking_system_init.h"

#include <atomic>
#include <chrono>
#include <thread>

using namespace rkcommon::tasking;

#ifndef BACKEND
#define BACKEND "debug"
#endif
static const bool is_debug = std::string(BACKEND) == "debug";

static int hw()
{
  int h = (int)std::thread::hardware_concurrency();
  return h > 0 ? h : 1;
}

static int probe_max_concurrency(int limit, int ntasks)
{
  std::atomic<int> inside(0), maxseen(0);
  parallel_for(ntasks, [&](int) {
    int c = inside.fetch_add(1) + 1;
    int m = maxseen.load();
    while (c > m && !maxseen.compare_exchange_weak(m, c)) {
    }
    // hold the slot for a moment so that other threads can join; leave early if the limit is already broken
    auto until = std::chrono::steady_clock::now() + std::chrono::microseconds(1500);
    while (std::chrono::steady_clock::now() < until && inside.load() <= limit)
      std::this_thread::yield();
    inside.fetch_sub(1);
  });
  return maxseen.load();
}

static std::string hist_str(const std::vector<int> &h)
{
  std::string s;
  for (size_t i = 0; i < h.size(); i++)
    s += (i ? "," : "") + std::to_string(h[i]);
  return s;
}

// runs in a forked child; reports through vr (merged by run_sharded)
static void run_history(const std::vector<int> &h, bool verbose)
{
  std::string rp = hist_str(h);
  vr::stat("states");
  int before = numTaskingThreads();
  vr::stat("transitions");
  if (before != 0)
    vr::violation(std::string(BACKEND) + "|numTaskingThreads() != 0 before initialisation", rp, "got " + std::to_string(before));
  std::string obs;
  bool first = true;
  int last = 0;
  for (size_t k = 0; k < h.size(); k++) {
    int n = h[k];
    initTaskingSystem(n);
    int got = numTaskingThreads();
    vr::stat("transitions");
    obs += std::to_string(got) + ",";
    bool ok;
    std::string why;
    if (n > 0) {
      ok = got == (is_debug ? 1 : n);
      why = "initTaskingSystem(n>0) does not report n";
    } else if (first) {
      ok = got > 0 && (is_debug ? got == 1 : true);
      why = "first initialisation with n<=0 does not select a positive default";
    } else {
      ok = got > 0;
      why = "re-initialisation with n<=0 reports a non-positive count";
    }
    if (verbose)
      printf("history %s: after initTaskingSystem(%d) numTaskingThreads()=%d %s\n", rp.c_str(), n, got, ok ? "ok" : why.c_str());
    if (!ok)
      vr::violation(std::string(BACKEND) + "|" + why + (k > 0 ? " (after a previous initialisation)" : ""), rp, "step " + std::to_string(k) + " n=" + std::to_string(n) + " reported " + std::to_string(got));
    first = false;
    last = got;
  }
  if (!h.empty() && last > 0) {
    int limit = last;
    int seen = probe_max_concurrency(limit, 4 * (limit > 8 ? 8 : limit) + 3);
    vr::stat("transitions");
    obs += "max" + std::to_string(seen > limit ? 1 : 0);
    if (verbose)
      printf("history %s: parallel_for ran on up to %d threads at once (limit %d)\n", rp.c_str(), seen, limit);
    if (seen > limit)
      vr::violation(std::string(BACKEND) + "|parallel_for body ran on more threads at once than numTaskingThreads()", rp, "saw " + std::to_string(seen) + " limit " + std::to_string(limit));
  }
  vr::outcome(rp + ":" + obs);
  vr::sample("init history [" + rp + "] -> reported " + obs, "h" + std::to_string(h.size()));
}

int main(int argc, char **argv)
{
  vr::init(argc, argv);
  const int vals[] = {-1, 0, 1, 2, 3, 5, 2 * hw()};
  if (vr::replaying()) {
    std::vector<int> h;
    std::stringstream ss(vr::S().replay);
    std::string item;
    while (std::getline(ss, item, ','))
      if (!item.empty())
        h.push_back(atoi(item.c_str()));
    run_history(h, true);
    vr::flush();
    return vr::S().viols.empty() ? 0 : 1;
  }
  std::vector<std::vector<int>> hs;
  hs.push_back(std::vector<int>());
  const size_t depth = vr::thorough() ? 4 : 3;
  for (size_t i = 0; i < hs.size(); i++)
    if (hs[i].size() < depth)
      for (int v : vals) {
        std::vector<int> h = hs[i];
        h.push_back(v);
        hs.push_back(h);
      }
  // one forked process per history: the handle is a process-wide global
  const int nsh = (int)hs.size();
  vr::run_sharded(
      nsh,
      [&](int shard, long long resume) {
        if (resume >= 0)
          return;
        vr::begin_case(0, std::string(BACKEND) + "|init history", hist_str(hs[shard]));
        run_history(hs[shard], false);
      },
      is_debug ? 16 : 4);
  vr::stat("traces", (long long)hs.size());
  vr::note(std::string("backend ") + BACKEND + ", hardware threads " + std::to_string(hw()));
  return vr::finish();
}
