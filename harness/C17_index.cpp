// C17: index maps are bijections and 3D array adaptors address the right cell.
// Engine gridmc: every element of a declared finite input set against independent oracles
// (unsigned __int128 arithmetic for the index maps, nested vectors for the arrays, brute force
// for getValueRange).  Everything runs inside forked shards under ASan+UBSan so a crash
// (out-of-bounds cell, signed overflow) is attributed to the case and does not stop the run.
//
// A *case* is a spec string "kind:a,b,c,...".  The explorer enumerates coarse specs (one extent,
// every shift/clip box/region inside); a violation carries the fine spec of the single failing
// configuration; --replay accepts both.
#include "common/vreport.h"

#include <memory>

#include "rkcommon/array3D/Array3D.h"
#include "rkcommon/array3D/for_each.h"
#include "rkcommon/utility/multidim_index_sequence.h"

#include <cmath>

using namespace rkcommon;
using namespace rkcommon::math;
using namespace rkcommon::array3D;

typedef unsigned __int128 u128;
typedef unsigned long long u64;
typedef long long ll;

// ------------------------------------------------------------------ small helpers
static std::string s128(u128 v)
{
  if (v == 0)
    return "0";
  std::string o;
  while (v) {
    o.insert(o.begin(), char('0' + (int)(v % 10)));
    v /= 10;
  }
  return o;
}
static std::string sll(ll v)
{
  return std::to_string(v);
}
static std::string s3(ll x, ll y, ll z)
{
  return "(" + sll(x) + "," + sll(y) + "," + sll(z) + ")";
}
static std::string s3u(u64 x, u64 y, u64 z)
{
  return "(" + std::to_string(x) + "," + std::to_string(y) + "," + std::to_string(z) + ")";
}
static std::string s3(const vec3i &v)
{
  return s3(v.x, v.y, v.z);
}

struct Counters
{
  ll states = 0, trans = 0, bad = 0;
  uint64_t h = 1469598103934665603ull;
  void obs(uint64_t v)
  {
    h = (h ^ v) * 1099511628211ull;
  }
  void commit()
  {
    vr::stat("states", states);
    vr::stat("transitions", trans);
    vr::outcome(h);
    if (vr::replaying())
      printf("  %lld inputs, %lld oracle comparisons, %lld violations\n", states, trans, bad);
  }
};

static void viol(Counters &c, const std::string &sig, const std::string &replay, const std::string &detail)
{
  c.bad++;
  vr::violation(sig, replay, detail);
  if (vr::replaying())
    printf("VIOLATED %s :: [%s] %s\n", sig.c_str(), replay.c_str(), detail.c_str());
}

// in replay mode: show got/want for the first comparisons of the case
static void rp(const std::string &line)
{
  static int n = 0;
  if (vr::replaying() && n++ < 80)
    printf("  %s\n", line.c_str());
}

static const char *cls_total(u128 total)
{
  return total < ((u128)1 << 31) ? "total<2^31" : total < ((u128)1 << 32) ? "2^31<=total<2^32" : "total>=2^32";
}

// per axis: all coordinates for small extents, {0,1,mid,dim-2,dim-1} for large ones
static std::vector<u64> axis_coords(u64 d)
{
  std::set<u64> s;
  if (d <= 6) {
    for (u64 i = 0; i < d; i++)
      s.insert(i);
  } else {
    s.insert(0);
    s.insert(1);
    s.insert(d / 2);
    s.insert(d - 2);
    s.insert(d - 1);
  }
  return std::vector<u64>(s.begin(), s.end());
}

// all indices for small totals, otherwise the ends, the middle and both sides of the first row / slice boundary
static std::vector<u64> index_set(u128 total, u128 row, u128 slice)
{
  std::set<u64> s;
  if (total <= 216) {
    for (u64 i = 0; i < (u64)total; i++)
      s.insert(i);
    return std::vector<u64>(s.begin(), s.end());
  }
  const u128 cand[] = {0, 1, row - 1, row, row + 1, slice - 1, slice, slice + 1, total / 2, total - row, total - 2, total - 1};
  for (u128 c : cand)
    if (c < total)
      s.insert((u64)c);
  return std::vector<u64>(s.begin(), s.end());
}

static std::vector<ll> parse_ints(const std::string &s)
{
  std::vector<ll> v;
  std::stringstream ss(s);
  std::string item;
  while (std::getline(ss, item, ','))
    if (!item.empty())
      v.push_back(strtoll(item.c_str(), nullptr, 10));
  return v;
}


// ------------------------------------------------------------------ iterator operation histories
// every sequence of <= D iterator operations (all nine the interface offers) from begin(), against an
// integer position; after every step the iterator must report that position and dereference to its coordinates
template <int N>
static vec_t<size_t, N> ref_coords(const vec_t<size_t, N> &d, size_t i);
template <>
vec_t<size_t, 2> ref_coords<2>(const vec_t<size_t, 2> &d, size_t i)
{
  return vec_t<size_t, 2>(i % d.x, i / d.x);
}
template <>
vec_t<size_t, 3> ref_coords<3>(const vec_t<size_t, 3> &d, size_t i)
{
  return vec_t<size_t, 3>(i % d.x, (i / d.x) % d.y, i / (d.x * d.y));
}
template <int N>
static std::string scoords(const vec_t<size_t, N> &c)
{
  std::string s = "(";
  for (int k = 0; k < N; k++)
    s += (k ? "," : "") + std::to_string(c[k]);
  return s + ")";
}
static const char *const ITOP_NAME[9] = {"++it", "it++", "--it", "it--", "it+2", "it-1", "it+iterator(1)", "it-iterator(1)", "jump_to(total-1)"};
template <int N>
static void iter_histories(const vec_t<size_t, N> &dims, size_t total, Counters &C, const std::string &spec, const std::string &cls)
{
  typedef multidim_index_iterator<N> It;
  const multidim_index_sequence<N> seq(dims);
  const std::string A = "multidim_index_iterator<" + std::to_string(N) + ">";
  const int D = vr::thorough() ? 5 : 4;
  int ops[8];
  long long nhist = 0;
  bool reported = false;
  std::function<void(int)> rec = [&](int depth) {
    // replay the prefix ops[0..depth) on a fresh iterator
    It it = seq.begin();
    size_t m = 0;
    std::string hist;
    bool ok = true;
    for (int k = 0; k < depth && ok; k++) {
      const int op = ops[k];
      size_t ret_pos = (size_t)-1;
      bool have_ret = false, ret_is_self = true;
      vec_t<size_t, N> ret_val(0);
      const It *self = &it;
      switch (op) {
      case 0: { m += 1; It r = ++it; ret_pos = r.current(); have_ret = true; if (m < total) ret_val = *r; break; }
      case 1: { m += 1; It &r = it++; ret_is_self = (&r == self); break; }
      case 2: { m -= 1; It r = --it; ret_pos = r.current(); have_ret = true; if (m < total) ret_val = *r; break; }
      case 3: { m -= 1; It &r = it--; ret_is_self = (&r == self); break; }
      case 4: { m += 2; It &r = it + (size_t)2; ret_is_self = (&r == self); break; }
      case 5: { m -= 1; It &r = it - (size_t)1; ret_is_self = (&r == self); break; }
      case 6: { m += 1; It o(dims, 1); It &r = it + o; ret_is_self = (&r == self); break; }
      case 7: { m -= 1; It o(dims, 1); It &r = it - o; ret_is_self = (&r == self); break; }
      default: { m = total - 1; it.jump_to(total - 1); break; }
      }
      hist += (k ? " ; " : "") + std::string(ITOP_NAME[op]);
      if (k + 1 < depth)
        continue;  // earlier steps were checked when they were the last step of a shorter history
      C.states++;
      C.trans += 4;
      C.obs(m * 16 + op);
      const vec_t<size_t, N> want = ref_coords<N>(dims, m < total ? m : 0);
      std::string bad;
      if (it.current() != m)
        bad = "current() is " + std::to_string(it.current()) + " want " + std::to_string(m);
      else if (m < total && !(*it == want))
        bad = "*it is " + scoords<N>(*it) + " want " + scoords<N>(want);
      else if (have_ret && ret_pos != m)
        bad = "the returned iterator is at " + std::to_string(ret_pos) + " want " + std::to_string(m);
      else if (have_ret && m < total && !(ret_val == want))
        bad = "the returned iterator dereferences to " + scoords<N>(ret_val) + " want " + scoords<N>(want);
      else if (!ret_is_self)
        bad = "the returned reference is not the iterator itself";
      else if ((it == seq.end()) != (m == total) || (it != seq.end()) != (m != total))
        bad = "comparison with end() is wrong at position " + std::to_string(m);
      else if ((it == seq.begin()) != (m == 0))
        bad = "comparison with begin() is wrong at position " + std::to_string(m);
      if (vr::replaying() && nhist < 60)
        printf("  [%s] position %zu%s\n", hist.c_str(), m, bad.empty() ? "" : ("  <-- " + bad).c_str());
      if (!bad.empty() && !reported) {
        reported = true;
        viol(C, A + " operation history|iterator state after " + ITOP_NAME[op] + " differs from the position reached|" + cls, spec,
            "dims " + scoords<N>(dims) + " history from begin(): " + hist + " : " + bad);
      }
      if (!bad.empty())
        ok = false;
    }
    if (depth > 0)
      nhist++;
    if (!ok || depth == D)
      return;
    for (int op = 0; op < 9; op++) {
      // stay inside [0,total]: the interface defines nothing outside
      const long long delta[9] = {1, 1, -1, -1, 2, -1, 1, -1, 0};
      const long long nm = op == 8 ? (long long)total - 1 : (long long)m + delta[op];
      if (nm < 0 || nm > (long long)total)
        continue;
      ops[depth] = op;
      rec(depth + 1);
    }
  };
  rec(0);
  if (total == 8 && N == 3)
    vr::sample(A + scoords<N>(dims) + ": every history of <= " + std::to_string(D) + " operations over {++it, it++, --it, it--, it+2, it-1, it+iterator, it-iterator, jump_to}: " +
            std::to_string(nhist) + " histories",
        "iterhist");
}

// ------------------------------------------------------------------ multidim_index_sequence<3>
static void check_seq3(u64 dx, u64 dy, u64 dz)
{
  Counters C;
  const std::string spec = "seq3:" + std::to_string(dx) + "," + std::to_string(dy) + "," + std::to_string(dz);
  const u128 total = (u128)dx * dy * dz;
  const std::string cls = cls_total(total);
  index_sequence_3D seq(vec_t<size_t, 3>(dx, dy, dz));
  C.states++;
  C.trans += 2;
  if ((u128)seq.total_indices() != total)
    viol(C, "multidim_index_sequence<3>::total_indices|differs from the product of the extents|" + cls, spec,
        "got " + std::to_string(seq.total_indices()) + " want " + s128(total));
  if (!(seq.dimensions() == vec_t<size_t, 3>(dx, dy, dz)))
    viol(C, "multidim_index_sequence<3>::dimensions|differs from the constructor argument|" + cls, spec, "");
  if (total > 0) {
    const std::vector<u64> X = axis_coords(dx), Y = axis_coords(dy), Z = axis_coords(dz);
    u128 prev = 0;
    bool first = true;
    for (u64 z : Z)
      for (u64 y : Y)
        for (u64 x : X) {
          const u128 want = (u128)x + (u128)dx * ((u128)y + (u128)dy * (u128)z);
          const size_t got = seq.flatten(vec_t<size_t, 3>(x, y, z));
          C.states++;
          C.trans += 4;
          C.obs(got);
          rp("flatten" + s3u(x, y, z) + " got " + std::to_string(got) + " want " + s128(want));
          if ((u128)got != want)
            viol(C, "multidim_index_sequence<3>::flatten|differs from x+dx*(y+dy*z) in 128 bits|" + cls, spec,
                "dims " + s3u(dx, dy, dz) + " coords " + s3u(x, y, z) + " got " + std::to_string(got) + " want " + s128(want));
          if ((u128)got >= total)
            viol(C, "multidim_index_sequence<3>::flatten|index outside [0,total)|" + cls, spec,
                "dims " + s3u(dx, dy, dz) + " coords " + s3u(x, y, z) + " got " + std::to_string(got) + " total " + s128(total));
          if (!first && !((u128)got > prev))
            viol(C, "multidim_index_sequence<3>::flatten|not strictly increasing in (z,y,x) order|" + cls, spec,
                "dims " + s3u(dx, dy, dz) + " coords " + s3u(x, y, z) + " got " + std::to_string(got) + " previous " + s128(prev));
          prev = got;
          first = false;
          const vec_t<size_t, 3> back = seq.reshape(got);
          if (!(back.x == x && back.y == y && back.z == z))
            viol(C, "multidim_index_sequence<3>::reshape(flatten(c))|is not c|" + cls, spec,
                "dims " + s3u(dx, dy, dz) + " coords " + s3u(x, y, z) + " flatten " + std::to_string(got) + " reshape " + s3u(back.x, back.y, back.z));
        }
    for (u64 i : index_set(total, dx, (u128)dx * dy)) {
      const u64 wx = (u64)((u128)i % dx), wy = (u64)(((u128)i / dx) % dy), wz = (u64)((u128)i / ((u128)dx * dy));
      const vec_t<size_t, 3> got = seq.reshape(i);
      C.states++;
      C.trans += 3;
      C.obs(got.x * 31 + got.y * 17 + got.z);
      rp("reshape(" + std::to_string(i) + ") got " + s3u(got.x, got.y, got.z) + " want " + s3u(wx, wy, wz));
      if (!(got.x == wx && got.y == wy && got.z == wz))
        viol(C, "multidim_index_sequence<3>::reshape|differs from (i%dx,(i/dx)%dy,i/(dx*dy))|" + cls, spec,
            "dims " + s3u(dx, dy, dz) + " index " + std::to_string(i) + " got " + s3u(got.x, got.y, got.z) + " want " + s3u(wx, wy, wz));
      if (!(got.x < dx && got.y < dy && got.z < dz))
        viol(C, "multidim_index_sequence<3>::reshape|coordinate outside the extent|" + cls, spec,
            "dims " + s3u(dx, dy, dz) + " index " + std::to_string(i) + " got " + s3u(got.x, got.y, got.z));
      else if (seq.flatten(got) != i)
        viol(C, "multidim_index_sequence<3>::flatten(reshape(i))|is not i|" + cls, spec,
            "dims " + s3u(dx, dy, dz) + " index " + std::to_string(i) + " reshape " + s3u(got.x, got.y, got.z) + " flatten " + std::to_string(seq.flatten(got)));
    }
  }
  if (total <= 216) {
    // iteration: range-for (begin/end, !=, prefix ++, *) and a hand-written loop with postfix ++
    for (int form = 0; form < 2; form++) {
      std::vector<vec_t<size_t, 3>> seen;
      if (form == 0) {
        for (auto c : seq) {
          seen.push_back(c);
          if (seen.size() > (size_t)total + 3)
            break;
        }
      } else {
        auto it = seq.begin();
        const auto e = seq.end();
        while (it != e) {
          seen.push_back(*it);
          it++;
          if (seen.size() > (size_t)total + 3)
            break;
        }
      }
      const char *fn = form == 0 ? "multidim_index_sequence<3> range-for" : "multidim_index_sequence<3> iterator postfix++ loop";
      C.states++;
      C.trans += 1 + (ll)seen.size();
      C.obs(seen.size());
      if ((u128)seen.size() != total)
        viol(C, std::string(fn) + "|number of visits differs from total_indices|" + cls, spec,
            "dims " + s3u(dx, dy, dz) + " visited " + std::to_string(seen.size()) + " want " + s128(total));
      size_t k = 0;
      for (u64 z = 0; z < dz; z++)
        for (u64 y = 0; y < dy; y++)
          for (u64 x = 0; x < dx; x++, k++) {
            if (k >= seen.size())
              continue;
            if (!(seen[k].x == x && seen[k].y == y && seen[k].z == z))
              viol(C, std::string(fn) + "|k-th visit is not the k-th coordinate in flattened order|" + cls, spec,
                  "dims " + s3u(dx, dy, dz) + " visit " + std::to_string(k) + " got " + s3u(seen[k].x, seen[k].y, seen[k].z) + " want " + s3u(x, y, z));
          }
    }
  }
  if (total >= 1 && total <= 30)
    iter_histories<3>(vec_t<size_t, 3>(dx, dy, dz), (size_t)total, C, spec, cls);
  vr::sample("index_sequence_3D" + s3u(dx, dy, dz) + ": total " + s128(total) + ", flatten(dims-1) = " +
          (total ? std::to_string(seq.flatten(vec_t<size_t, 3>(dx - 1, dy - 1, dz - 1))) : std::string("-")),
      std::string("seq3") + cls);
  C.commit();
}

// ------------------------------------------------------------------ multidim_index_sequence<2>
static void check_seq2(u64 dx, u64 dy)
{
  Counters C;
  const std::string spec = "seq2:" + std::to_string(dx) + "," + std::to_string(dy);
  const u128 total = (u128)dx * dy;
  const std::string cls = cls_total(total);
  auto s2 = [](u64 x, u64 y) { return "(" + std::to_string(x) + "," + std::to_string(y) + ")"; };
  index_sequence_2D seq(vec_t<size_t, 2>(dx, dy));
  C.states++;
  C.trans += 2;
  if ((u128)seq.total_indices() != total)
    viol(C, "multidim_index_sequence<2>::total_indices|differs from the product of the extents|" + cls, spec,
        "got " + std::to_string(seq.total_indices()) + " want " + s128(total));
  if (!(seq.dimensions() == vec_t<size_t, 2>(dx, dy)))
    viol(C, "multidim_index_sequence<2>::dimensions|differs from the constructor argument|" + cls, spec, "");
  if (total > 0) {
    const std::vector<u64> X = axis_coords(dx), Y = axis_coords(dy);
    u128 prev = 0;
    bool first = true;
    for (u64 y : Y)
      for (u64 x : X) {
        const u128 want = (u128)x + (u128)dx * (u128)y;
        const size_t got = seq.flatten(vec_t<size_t, 2>(x, y));
        C.states++;
        C.trans += 4;
        C.obs(got);
        rp("flatten" + s2(x, y) + " got " + std::to_string(got) + " want " + s128(want));
        if ((u128)got != want)
          viol(C, "multidim_index_sequence<2>::flatten|differs from x+dx*y in 128 bits|" + cls, spec,
              "dims " + s2(dx, dy) + " coords " + s2(x, y) + " got " + std::to_string(got) + " want " + s128(want));
        if ((u128)got >= total)
          viol(C, "multidim_index_sequence<2>::flatten|index outside [0,total)|" + cls, spec,
              "dims " + s2(dx, dy) + " coords " + s2(x, y) + " got " + std::to_string(got));
        if (!first && !((u128)got > prev))
          viol(C, "multidim_index_sequence<2>::flatten|not strictly increasing in (y,x) order|" + cls, spec,
              "dims " + s2(dx, dy) + " coords " + s2(x, y) + " got " + std::to_string(got) + " previous " + s128(prev));
        prev = got;
        first = false;
        const vec_t<size_t, 2> back = seq.reshape(got);
        if (!(back.x == x && back.y == y))
          viol(C, "multidim_index_sequence<2>::reshape(flatten(c))|is not c|" + cls, spec,
              "dims " + s2(dx, dy) + " coords " + s2(x, y) + " flatten " + std::to_string(got) + " reshape " + s2(back.x, back.y));
      }
    for (u64 i : index_set(total, dx, (u128)dx * ((dy + 1) / 2))) {
      const u64 wx = (u64)((u128)i % dx), wy = (u64)((u128)i / dx);
      const vec_t<size_t, 2> got = seq.reshape(i);
      C.states++;
      C.trans += 3;
      C.obs(got.x * 31 + got.y);
      rp("reshape(" + std::to_string(i) + ") got " + s2(got.x, got.y) + " want " + s2(wx, wy));
      if (!(got.x == wx && got.y == wy))
        viol(C, "multidim_index_sequence<2>::reshape|differs from (i%dx,i/dx)|" + cls, spec,
            "dims " + s2(dx, dy) + " index " + std::to_string(i) + " got " + s2(got.x, got.y) + " want " + s2(wx, wy));
      if (!(got.x < dx && got.y < dy))
        viol(C, "multidim_index_sequence<2>::reshape|coordinate outside the extent|" + cls, spec,
            "dims " + s2(dx, dy) + " index " + std::to_string(i) + " got " + s2(got.x, got.y));
      else if (seq.flatten(got) != i)
        viol(C, "multidim_index_sequence<2>::flatten(reshape(i))|is not i|" + cls, spec,
            "dims " + s2(dx, dy) + " index " + std::to_string(i) + " reshape " + s2(got.x, got.y));
    }
  }
  if (total <= 216) {
    for (int form = 0; form < 2; form++) {
      std::vector<vec_t<size_t, 2>> seen;
      if (form == 0) {
        for (auto c : seq) {
          seen.push_back(c);
          if (seen.size() > (size_t)total + 3)
            break;
        }
      } else {
        auto it = seq.begin();
        const auto e = seq.end();
        while (it != e) {
          seen.push_back(*it);
          it++;
          if (seen.size() > (size_t)total + 3)
            break;
        }
      }
      const char *fn = form == 0 ? "multidim_index_sequence<2> range-for" : "multidim_index_sequence<2> iterator postfix++ loop";
      C.states++;
      C.trans += 1 + (ll)seen.size();
      C.obs(seen.size());
      if ((u128)seen.size() != total)
        viol(C, std::string(fn) + "|number of visits differs from total_indices|" + cls, spec,
            "dims " + s2(dx, dy) + " visited " + std::to_string(seen.size()) + " want " + s128(total));
      size_t k = 0;
      for (u64 y = 0; y < dy; y++)
        for (u64 x = 0; x < dx; x++, k++) {
          if (k >= seen.size())
            continue;
          if (!(seen[k].x == x && seen[k].y == y))
            viol(C, std::string(fn) + "|k-th visit is not the k-th coordinate in flattened order|" + cls, spec,
                "dims " + s2(dx, dy) + " visit " + std::to_string(k) + " got " + s2(seen[k].x, seen[k].y) + " want " + s2(x, y));
        }
    }
  }
  if (total >= 1 && total <= 30)
    iter_histories<2>(vec_t<size_t, 2>(dx, dy), (size_t)total, C, spec, cls);
  C.commit();
}

// ------------------------------------------------------------------ longProduct / longIndex / coordsOf / indexOf (vec3i)
static void check_v3i(int dx, int dy, int dz)
{
  Counters C;
  const std::string spec = "v3i:" + sll(dx) + "," + sll(dy) + "," + sll(dz);
  const u128 total = (u128)dx * (u128)dy * (u128)dz;
  const std::string cls = cls_total(total);
  const vec3i dims(dx, dy, dz);
  const std::string sd = "dims " + s3(dims);
  // an ActualArray3D over external memory that is never dereferenced: indexOf/numElements for any extent
  static unsigned char dummy[8];
  std::shared_ptr<ActualArray3D<unsigned char>> arr = std::make_shared<ActualArray3D<unsigned char>>(dims, (void *)dummy);
  C.states++;
  C.trans += 3;
  if ((u128)longProduct(dims) != total)
    viol(C, "array3D::longProduct|differs from the 128-bit product|" + cls, spec, sd + " got " + std::to_string(longProduct(dims)) + " want " + s128(total));
  if ((u128)arr->numElements() != total)
    viol(C, "ActualArray3D::numElements|differs from the 128-bit product|" + cls, spec, sd + " got " + std::to_string(arr->numElements()) + " want " + s128(total));
  {
    SubBoxArray3D<unsigned char> sb(arr, box3i(vec3i(0), dims));
    if ((u128)sb.numElements() != total || !(sb.size() == dims))
      viol(C, "SubBoxArray3D::numElements/size|full clip box differs from the underlying extent|" + cls, spec,
          sd + " got " + std::to_string(sb.numElements()) + " size " + s3(sb.size()));
  }
  const std::vector<u64> X = axis_coords(dx), Y = axis_coords(dy), Z = axis_coords(dz);
  u128 prev = 0;
  bool first = true;
  for (u64 z : Z)
    for (u64 y : Y)
      for (u64 x : X) {
        const vec3i c((int)x, (int)y, (int)z);
        const u128 want = (u128)x + (u128)dx * ((u128)y + (u128)dy * (u128)z);
        const size_t got = longIndex(c, dims);
        const size_t got2 = arr->indexOf(c);
        C.states++;
        C.trans += 5;
        C.obs(got);
        rp("longIndex" + s3(c) + " got " + std::to_string(got) + " indexOf " + std::to_string(got2) + " want " + s128(want));
        if ((u128)got != want)
          viol(C, "array3D::longIndex|differs from x+dx*(y+dy*z) in 128 bits|" + cls, spec,
              sd + " coords " + s3(c) + " got " + std::to_string(got) + " want " + s128(want));
        if ((u128)got2 != want)
          viol(C, "ActualArray3D::indexOf|differs from x+dx*(y+dy*z) in 128 bits|" + cls, spec,
              sd + " coords " + s3(c) + " got " + std::to_string(got2) + " want " + s128(want));
        if ((u128)got >= total)
          viol(C, "array3D::longIndex|index outside [0,total)|" + cls, spec, sd + " coords " + s3(c) + " got " + std::to_string(got));
        if (!first && !((u128)got > prev))
          viol(C, "array3D::longIndex|not strictly increasing in (z,y,x) order|" + cls, spec,
              sd + " coords " + s3(c) + " got " + std::to_string(got) + " previous " + s128(prev));
        prev = got;
        first = false;
        const vec3i back = coordsOf(got, dims);
        if (!(back == c))
          viol(C, "array3D::coordsOf(longIndex(c))|is not c|" + cls, spec,
              sd + " coords " + s3(c) + " index " + std::to_string(got) + " coordsOf " + s3(back));
      }
  for (u64 i : index_set(total, dx, (u128)dx * dy)) {
    const ll wx = (ll)((u128)i % dx), wy = (ll)(((u128)i / dx) % dy), wz = (ll)((u128)i / ((u128)dx * dy));
    const vec3i got = coordsOf(i, dims);
    C.states++;
    C.trans += 3;
    C.obs((uint64_t)got.x * 31 + (uint64_t)got.y * 17 + (uint64_t)got.z);
    rp("coordsOf(" + std::to_string(i) + ") got " + s3(got) + " want " + s3(wx, wy, wz));
    if (!(got.x == wx && got.y == wy && got.z == wz))
      viol(C, "array3D::coordsOf|differs from (i%dx,(i/dx)%dy,i/(dx*dy))|" + cls, spec,
          sd + " index " + std::to_string(i) + " got " + s3(got) + " want " + s3(wx, wy, wz));
    if (!(got.x >= 0 && got.x < dx && got.y >= 0 && got.y < dy && got.z >= 0 && got.z < dz))
      viol(C, "array3D::coordsOf|coordinate outside the extent|" + cls, spec, sd + " index " + std::to_string(i) + " got " + s3(got));
    else if (longIndex(got, dims) != i)
      viol(C, "array3D::longIndex(coordsOf(i))|is not i|" + cls, spec,
          sd + " index " + std::to_string(i) + " coordsOf " + s3(got) + " longIndex " + std::to_string(longIndex(got, dims)));
  }
  vr::sample("vec3i dims " + s3(dims) + ": longProduct " + std::to_string(longProduct(dims)) + ", longIndex(dims-1) = " +
          std::to_string(longIndex(dims - vec3i(1), dims)),
      std::string("v3i") + cls);
  C.commit();
}

// ------------------------------------------------------------------ for_each
static void check_foreach(int lx, int ly, int lz, int ux, int uy, int uz)
{
  Counters C;
  const std::string spec = "foreach:" + sll(lx) + "," + sll(ly) + "," + sll(lz) + "," + sll(ux) + "," + sll(uy) + "," + sll(uz);
  const vec3i lo(lx, ly, lz), up(ux, uy, uz);
  std::vector<vec3i> want;
  for (int z = lz; z < uz; z++)
    for (int y = ly; y < uy; y++)
      for (int x = lx; x < ux; x++)
        want.push_back(vec3i(x, y, z));
  const char *cls = want.empty() ? "empty region" : want.size() == 1 ? "single cell" : "several cells";
  const bool origin = lx == 0 && ly == 0 && lz == 0;
  for (int form = 0; form < 3; form++) {
    if (form == 2 && !origin)
      continue;
    std::vector<vec3i> seen;
    const char *fn;
    if (form == 0) {
      fn = "for_each(lower,upper)";
      for_each(lo, up, [&](const vec3i &i) { seen.push_back(i); });
    } else if (form == 1) {
      fn = "for_each(box3i)";
      for_each(box3i(lo, up), [&](const vec3i &i) { seen.push_back(i); });
    } else {
      fn = "for_each(size)";
      for_each(up, [&](const vec3i &i) { seen.push_back(i); });
    }
    C.states++;
    C.trans += 1 + (ll)want.size();
    C.obs(seen.size());
    for (auto &v : seen)
      C.obs((uint64_t)(v.x + 8) * 4096 + (v.y + 8) * 64 + (v.z + 8));
    {
      std::string l = std::string(fn) + " visited " + std::to_string(seen.size()) + " (want " + std::to_string(want.size()) + "):";
      for (size_t k = 0; k < seen.size() && k < 12; k++)
        l += " " + s3(seen[k]);
      rp(l);
    }
    if (seen.size() != want.size())
      viol(C, std::string(fn) + "|number of visits differs from the number of cells in [lower,upper)|" + cls, spec,
          "lower " + s3(lo) + " upper " + s3(up) + " visits " + std::to_string(seen.size()) + " want " + std::to_string(want.size()));
    for (size_t k = 0; k < want.size() && k < seen.size(); k++)
      if (!(seen[k] == want[k])) {
        viol(C, std::string(fn) + "|k-th visit is not the k-th cell in flattened (z,y,x) order|" + cls, spec,
            "lower " + s3(lo) + " upper " + s3(up) + " visit " + std::to_string(k) + " got " + s3(seen[k]) + " want " + s3(want[k]));
        break;
      }
  }
  vr::sample("for_each " + s3(lo) + ".." + s3(up) + " visits " + std::to_string(want.size()) + " cells", std::string("fe") + cls);
  C.commit();
}

// ------------------------------------------------------------------ reference model of a 3D array
template <typename T>
struct Model
{
  int dx, dy, dz;
  std::vector<std::vector<std::vector<T>>> v;  // [z][y][x]
  Model(int dx, int dy, int dz) : dx(dx), dy(dy), dz(dz), v(dz, std::vector<std::vector<T>>(dy, std::vector<T>(dx, T(0)))) {}
  T &at(int x, int y, int z)
  {
    return v[z][y][x];
  }
  static int cl(int a, int d)
  {
    return a < 0 ? 0 : a >= d ? d - 1 : a;
  }
  T clamped(int x, int y, int z)
  {
    return v[cl(z, dz)][cl(y, dy)][cl(x, dx)];
  }
};

template <typename T>
struct TName;
template <>
struct TName<int>
{
  static const char *n()
  {
    return "i";
  }
};
template <>
struct TName<float>
{
  static const char *n()
  {
    return "f";
  }
};
template <>
struct TName<unsigned char>
{
  static const char *n()
  {
    return "u8";
  }
};
template <>
struct TName<unsigned>
{
  static const char *n()
  {
    return "u32";
  }
};
template <>
struct TName<double>
{
  static const char *n()
  {
    return "d";
  }
};

template <typename T>
static std::string sval(T v)
{
  char b[64];
  snprintf(b, sizeof b, "%.9g", (double)v);
  return b;
}

// an Array3D implemented by the harness: get() does NOT clamp and returns an encoding of the coordinate it
// was asked for (plus an id), so an adaptor's choice of underlying cell is directly observable
template <typename T>
struct ProbeArray3D : public Array3D<T>
{
  vec3i dims;
  int id;
  mutable ll gets;
  ProbeArray3D(const vec3i &d, int id) : dims(d), id(id), gets(0) {}
  vec3i size() const override
  {
    return dims;
  }
  static ll code(int x, int y, int z, int id)
  {
    return (((ll)id * 64 + (x + 16)) * 64 + (y + 16)) * 64 + (z + 16);
  }
  T get(const vec3i &w) const override
  {
    gets++;
    return T(code(w.x, w.y, w.z, id));
  }
  size_t numElements() const override
  {
    return (size_t)dims.x * dims.y * dims.z;
  }
};
static std::string decode(ll c)
{
  const int z = (int)(c % 64) - 16, y = (int)((c / 64) % 64) - 16, x = (int)((c / 4096) % 64) - 16, id = (int)(c / 262144);
  return s3(x, y, z) + (id ? " of slice " + sll(id - 1) : "");
}

template <typename T>
static T val1(int x, int y, int z)
{
  return T(1 + x + 5 * y + 25 * z);
}
template <typename T>
static T val2(int x, int y, int z)
{
  return T(250 - (x + 5 * y + 25 * z));
}

// ------------------------------------------------------------------ ActualArray3D
template <typename T>
static void check_actual(int dx, int dy, int dz)
{
  Counters C;
  const std::string tn = TName<T>::n();
  const std::string spec = "actual:" + tn + "," + sll(dx) + "," + sll(dy) + "," + sll(dz);
  const std::string A = "ActualArray3D<" + tn + ">";
  const vec3i dims(dx, dy, dz);
  const size_t total = (size_t)dx * dy * dz;
  const char *cls = (dx == dy && dy == dz) ? "cubic extent" : "non-cubic extent";
  for (int ext = 0; ext < 2; ext++) {
    std::vector<T> buf(total, T(77));
    std::unique_ptr<ActualArray3D<T>> ap(ext ? new ActualArray3D<T>(dims, (void *)buf.data()) : new ActualArray3D<T>(dims));
    ActualArray3D<T> &a = *ap;
    const Array3D<T> &base = a;
    const std::string mem = ext ? "external memory" : "own memory";
    Model<T> m(dx, dy, dz);
    C.states++;
    C.trans += 2;
    if (!(base.size() == dims))
      viol(C, A + "::size|differs from the constructor argument|" + cls, spec, mem + " got " + s3(base.size()));
    if (base.numElements() != total)
      viol(C, A + "::numElements|differs from the product of the extents|" + cls, spec, mem + " got " + std::to_string(base.numElements()));
    // clear(): every cell reads back the value
    a.clear(T(9));
    for (int z = 0; z < dz; z++)
      for (int y = 0; y < dy; y++)
        for (int x = 0; x < dx; x++) {
          m.at(x, y, z) = T(9);
          C.states++;
          C.trans++;
          if (!(base.get(vec3i(x, y, z)) == T(9)))
            viol(C, A + "::clear|a cell does not read back the cleared value|" + cls, spec,
                mem + " dims " + s3(dims) + " cell " + s3(x, y, z) + " got " + sval(base.get(vec3i(x, y, z))));
        }
    // two rounds of set at every cell (reverse order, then forward order): after each set the whole array
    // equals the model (the written cell holds the new value, every other cell is unchanged)
    for (int round = 0; round < 2; round++)
      for (size_t k = 0; k < total; k++) {
        const size_t kk = round == 0 ? total - 1 - k : k;
        const int x = (int)(kk % dx), y = (int)((kk / dx) % dy), z = (int)(kk / ((size_t)dx * dy));
        const T nv = round == 0 ? val1<T>(x, y, z) : val2<T>(x, y, z);
        a.set(vec3i(x, y, z), nv);
        m.at(x, y, z) = nv;
        C.states++;
        C.trans += 1 + (ll)total;
        const T g = base.get(vec3i(x, y, z));
        C.obs((uint64_t)(double)g);
        if (!(g == nv))
          viol(C, A + "::get after set|does not return the value last set at the cell|" + cls, spec,
              mem + " dims " + s3(dims) + " cell " + s3(x, y, z) + " got " + sval(g) + " want " + sval(nv));
        for (int cz = 0; cz < dz; cz++)
          for (int cy = 0; cy < dy; cy++)
            for (int cx = 0; cx < dx; cx++)
              if (!(cx == x && cy == y && cz == z) && !(base.get(vec3i(cx, cy, cz)) == m.at(cx, cy, cz))) {
                viol(C, A + "::set|changes another cell|" + cls, spec,
                    mem + " dims " + s3(dims) + " set " + s3(x, y, z) + " changed " + s3(cx, cy, cz) + " to " + sval(base.get(vec3i(cx, cy, cz))) +
                        " (was " + sval(m.at(cx, cy, cz)) + ")");
                m.at(cx, cy, cz) = base.get(vec3i(cx, cy, cz));  // resynchronise: report each slip once
              }
        if (ext) {
          // linear layout in the caller's buffer: x fastest, then y, then z
          size_t lin = 0, cnt = 0;
          for (int cz = 0; cz < dz; cz++)
            for (int cy = 0; cy < dy; cy++)
              for (int cx = 0; cx < dx; cx++, cnt++)
                if (cx == x && cy == y && cz == z)
                  lin = cnt;
          C.trans++;
          if (!(buf[lin] == nv))
            viol(C, A + "::set|value not stored at linear position x+dx*(y+dy*z) of the external buffer|" + cls, spec,
                "dims " + s3(dims) + " cell " + s3(x, y, z) + " buffer[" + std::to_string(lin) + "] = " + sval(buf[lin]) + " want " + sval(nv));
        }
      }
    // get at every coordinate of [-2, dim+1]^3 is the clamped cell
    for (int z = -2; z <= dz + 1; z++)
      for (int y = -2; y <= dy + 1; y++)
        for (int x = -2; x <= dx + 1; x++) {
          const T g = base.get(vec3i(x, y, z));
          const T w = m.clamped(x, y, z);
          C.states++;
          C.trans++;
          C.obs((uint64_t)(double)g);
          if (ext == 0 && (x < 0 || y < 0 || z < 0 || x >= dx || y >= dy || z >= dz))
            rp("get" + s3(x, y, z) + " = " + sval(g) + " want " + sval(w));
          if (!(g == w)) {
            const bool inside = x >= 0 && x < dx && y >= 0 && y < dy && z >= 0 && z < dz;
            viol(C, A + "::get|" + (inside ? "wrong cell for a coordinate inside the extent|" : "coordinate outside the extent is not clamped to the nearest cell|") + cls, spec,
                mem + " dims " + s3(dims) + " get" + s3(x, y, z) + " = " + sval(g) + " want " + sval(w) + " (cell " +
                    s3(Model<T>::cl(x, dx), Model<T>::cl(y, dy), Model<T>::cl(z, dz)) + ")");
          }
        }
  }
  vr::sample(A + " dims " + s3(dims) + ": set/get at every cell, get on [-2,dim+1]^3 clamps", "actual" + tn);
  C.commit();
}

template <typename T>
static std::shared_ptr<ActualArray3D<T>> filled(int dx, int dy, int dz, Model<T> &m, int salt = 0)
{
  std::shared_ptr<ActualArray3D<T>> a = std::make_shared<ActualArray3D<T>>(vec3i(dx, dy, dz));
  for (int z = 0; z < dz; z++)
    for (int y = 0; y < dy; y++)
      for (int x = 0; x < dx; x++) {
        const T v = T(val1<T>(x, y, z) + T(salt));
        a->set(vec3i(x, y, z), v);
        m.at(x, y, z) = v;
      }
  return a;
}

static int pmod(int a, int d)
{
  int r = a % d;
  return r < 0 ? r + d : r;
}

// ------------------------------------------------------------------ IndexShiftedArray3D
// shifts: all of [-dim, 2*dim) per axis, or the single shift given
template <typename T>
static void check_shift(int dx, int dy, int dz, const std::vector<ll> &only)
{
  Counters C;
  const std::string tn = TName<T>::n();
  const std::string base_spec = "shift:" + tn + "," + sll(dx) + "," + sll(dy) + "," + sll(dz);
  const std::string A = "IndexShiftedArray3D<" + tn + ">";
  const vec3i dims(dx, dy, dz);
  Model<T> m(dx, dy, dz);
  std::shared_ptr<Array3D<T>> act = filled<T>(dx, dy, dz, m);
  std::shared_ptr<ProbeArray3D<T>> probe = std::make_shared<ProbeArray3D<T>>(dims, 0);
  for (int sz = -dz; sz < 2 * dz; sz++)
    for (int sy = -dy; sy < 2 * dy; sy++)
      for (int sx = -dx; sx < 2 * dx; sx++) {
        if (!only.empty() && !(only[0] == sx && only[1] == sy && only[2] == sz))
          continue;
        const std::string spec = base_spec + "," + sll(sx) + "," + sll(sy) + "," + sll(sz);
        const char *cls = (sx < 0 || sy < 0 || sz < 0) ? "negative shift" : (sx >= dx || sy >= dy || sz >= dz) ? "shift >= extent" : "shift inside the extent";
        IndexShiftedArray3D<T> sa(act, vec3i(sx, sy, sz));
        IndexShiftedArray3D<T> sp(probe, vec3i(sx, sy, sz));
        const Array3D<T> &ba = sa, &bp = sp;
        C.states++;
        C.trans += 2;
        if (!(ba.size() == dims) || ba.numElements() != (size_t)dx * dy * dz)
          viol(C, A + "::size/numElements|differs from the underlying array|" + cls, spec, "size " + s3(ba.size()) + " n " + std::to_string(ba.numElements()));
        for (int z = 0; z < dz; z++)
          for (int y = 0; y < dy; y++)
            for (int x = 0; x < dx; x++) {
              const int wx = pmod(x + sx, dx), wy = pmod(y + sy, dy), wz = pmod(z + sz, dz);
              const T g = ba.get(vec3i(x, y, z));
              const ll gp = (ll)bp.get(vec3i(x, y, z));
              C.states++;
              C.trans += 2;
              C.obs((uint64_t)gp);
              if (!only.empty())
                rp("get" + s3(x, y, z) + " = " + sval(g) + " want " + sval(m.at(wx, wy, wz)) + "; read cell " + decode(gp) + " want " + s3(wx, wy, wz));
              if (!(g == m.at(wx, wy, wz)))
                viol(C, A + "::get|value is not the one of cell (where+shift) mod size|" + cls, spec,
                    "dims " + s3(dims) + " shift " + s3(sx, sy, sz) + " get" + s3(x, y, z) + " = " + sval(g) + " want " + sval(m.at(wx, wy, wz)) + " (cell " + s3(wx, wy, wz) + ")");
              if (gp != ProbeArray3D<T>::code(wx, wy, wz, 0))
                viol(C, A + "::get|asks the underlying array for a cell other than (where+shift) mod size|" + cls, spec,
                    "dims " + s3(dims) + " shift " + s3(sx, sy, sz) + " get" + s3(x, y, z) + " read cell " + decode(gp) + " want " + s3(wx, wy, wz));
            }
      }
  vr::sample(A + " dims " + s3(dims) + ": every shift in [-dim,2*dim)^3, every cell", "shift" + tn);
  C.commit();
}

// ------------------------------------------------------------------ SubBoxArray3D
// clip boxes: all 0 <= lower <= upper <= dims (half-open [lower,upper)), or the single one given
template <typename T>
static void check_subbox(int dx, int dy, int dz, const std::vector<ll> &only)
{
  Counters C;
  const std::string tn = TName<T>::n();
  const std::string base_spec = "subbox:" + tn + "," + sll(dx) + "," + sll(dy) + "," + sll(dz);
  const std::string A = "SubBoxArray3D<" + tn + ">";
  const vec3i dims(dx, dy, dz);
  Model<T> m(dx, dy, dz);
  std::shared_ptr<Array3D<T>> act = filled<T>(dx, dy, dz, m);
  std::shared_ptr<Array3D<T>> probe = std::make_shared<ProbeArray3D<T>>(dims, 0);
  for (int lz = 0; lz <= dz; lz++)
    for (int ly = 0; ly <= dy; ly++)
      for (int lx = 0; lx <= dx; lx++)
        for (int uz = lz; uz <= dz; uz++)
          for (int uy = ly; uy <= dy; uy++)
            for (int ux = lx; ux <= dx; ux++) {
              if (!only.empty() && !(only[0] == lx && only[1] == ly && only[2] == lz && only[3] == ux && only[4] == uy && only[5] == uz))
                continue;
              const std::string spec = base_spec + "," + sll(lx) + "," + sll(ly) + "," + sll(lz) + "," + sll(ux) + "," + sll(uy) + "," + sll(uz);
              const int nx = ux - lx, ny = uy - ly, nz = uz - lz;
              const size_t n = (size_t)nx * ny * nz;
              const char *cls = n == 0 ? "empty clip box" : n == (size_t)dx * dy * dz ? "full clip box" : (lx || ly || lz) ? "clip box with lower > 0" : "clip box at the origin";
              const box3i clip(vec3i(lx, ly, lz), vec3i(ux, uy, uz));
              SubBoxArray3D<T> sa(act, clip);
              SubBoxArray3D<T> sp(probe, clip);
              const Array3D<T> &ba = sa, &bp = sp;
              C.states++;
              C.trans += 2;
              if (!(ba.size() == vec3i(nx, ny, nz)))
                viol(C, A + "::size|differs from upper-lower of the clip box|" + cls, spec, "clip " + s3(clip.lower) + ".." + s3(clip.upper) + " size " + s3(ba.size()));
              if (ba.numElements() != n)
                viol(C, A + "::numElements|differs from the number of cells of the clip box|" + cls, spec,
                    "clip " + s3(clip.lower) + ".." + s3(clip.upper) + " got " + std::to_string(ba.numElements()) + " want " + std::to_string(n));
              for (int z = 0; z < nz; z++)
                for (int y = 0; y < ny; y++)
                  for (int x = 0; x < nx; x++) {
                    const T g = ba.get(vec3i(x, y, z));
                    const ll gp = (ll)bp.get(vec3i(x, y, z));
                    const T w = m.at(x + lx, y + ly, z + lz);
                    C.states++;
                    C.trans += 2;
                    C.obs((uint64_t)gp);
                    if (!only.empty())
                      rp("get" + s3(x, y, z) + " = " + sval(g) + " want " + sval(w) + "; read cell " + decode(gp) + " want " + s3(x + lx, y + ly, z + lz));
                    if (!(g == w))
                      viol(C, A + "::get|value is not the one of cell where+clipBox.lower|" + cls, spec,
                          "dims " + s3(dims) + " clip " + s3(clip.lower) + ".." + s3(clip.upper) + " get" + s3(x, y, z) + " = " + sval(g) + " want " + sval(w));
                    if (gp != ProbeArray3D<T>::code(x + lx, y + ly, z + lz, 0))
                      viol(C, A + "::get|asks the underlying array for a cell other than where+clipBox.lower|" + cls, spec,
                          "dims " + s3(dims) + " clip " + s3(clip.lower) + ".." + s3(clip.upper) + " get" + s3(x, y, z) + " read cell " + decode(gp) + " want " +
                              s3(x + lx, y + ly, z + lz));
                  }
            }
  vr::sample(A + " dims " + s3(dims) + ": every clip box 0<=lower<=upper<=dims, every cell of it", "subbox" + tn);
  C.commit();
}

// ------------------------------------------------------------------ Array3DAccessor
template <typename IN>
static IN acc_value(int x, int y, int z);
template <>
int acc_value<int>(int x, int y, int z)
{
  const int k = x + 5 * y + 25 * z;
  return (k % 2 ? -1 : 1) * (k * 131071 + 3);  // |v| < 2^24: exactly representable as float
}
template <>
float acc_value<float>(int x, int y, int z)
{
  const int k = x + 5 * y + 25 * z;
  return (k % 3 == 1 ? -1.f : 1.f) * (0.25f * (float)(k * 7 + 1) + (k % 5 == 0 ? 1000000.f : 0.f));  // fractions .25/.5/.75, both signs
}

template <typename IN, typename OUT>
static void check_access(int dx, int dy, int dz)
{
  Counters C;
  const std::string tn = std::string(TName<IN>::n()) + ">" + TName<OUT>::n();
  const std::string spec = "access:" + tn + "," + sll(dx) + "," + sll(dy) + "," + sll(dz);
  const std::string A = "Array3DAccessor<" + std::string(TName<IN>::n()) + "," + TName<OUT>::n() + ">";
  const vec3i dims(dx, dy, dz);
  Model<IN> m(dx, dy, dz);
  std::shared_ptr<ActualArray3D<IN>> act = std::make_shared<ActualArray3D<IN>>(dims);
  for (int z = 0; z < dz; z++)
    for (int y = 0; y < dy; y++)
      for (int x = 0; x < dx; x++) {
        m.at(x, y, z) = acc_value<IN>(x, y, z);
        act->set(vec3i(x, y, z), m.at(x, y, z));
      }
  std::shared_ptr<ProbeArray3D<IN>> probe = std::make_shared<ProbeArray3D<IN>>(dims, 0);
  Array3DAccessor<IN, OUT> aa(act), ap(probe);
  const Array3D<OUT> &ba = aa, &bp = ap;
  C.states++;
  C.trans += 2;
  if (!(ba.size() == dims) || ba.numElements() != (size_t)dx * dy * dz)
    viol(C, A + "::size/numElements|differs from the underlying array|any", spec, "size " + s3(ba.size()) + " n " + std::to_string(ba.numElements()));
  for (int z = 0; z < dz; z++)
    for (int y = 0; y < dy; y++)
      for (int x = 0; x < dx; x++) {
        // the value of the same cell, converted: integers below 2^24 are exact in float; float -> int drops the fraction
        // (the language's own conversion: float -> int drops the fraction, a negative int -> unsigned wraps)
        const long double want = (long double)static_cast<OUT>(m.at(x, y, z));
        const OUT g = ba.get(vec3i(x, y, z));
        const ll gp = (ll)bp.get(vec3i(x, y, z));
        C.states++;
        C.trans += 2;
        C.obs((uint64_t)(ll)g);
        rp("get" + s3(x, y, z) + " = " + sval(g) + " want " + sval((double)want) + " (underlying " + sval(m.at(x, y, z)) + "); read cell " + decode(gp));
        if (!((long double)g == want))
          viol(C, A + "::get|value is not the converted value of the same cell|any", spec,
              "dims " + s3(dims) + " get" + s3(x, y, z) + " = " + sval(g) + " want " + sval((double)want) + " (underlying " + sval(m.at(x, y, z)) + ")");
        if (gp != ProbeArray3D<IN>::code(x, y, z, 0))
          viol(C, A + "::get|asks the underlying array for a different cell|any", spec,
              "dims " + s3(dims) + " get" + s3(x, y, z) + " read cell " + decode(gp));
      }
  // getValueRange through the accessor: tight bounds of the CONVERTED values of every region (the conversion need
  // not preserve the order: negative ints become the largest unsigned values)
  for (int bz = 0; bz < dz; bz++)
    for (int by = 0; by < dy; by++)
      for (int bx = 0; bx < dx; bx++)
        for (int ez = bz + 1; ez <= dz; ez++)
          for (int ey = by + 1; ey <= dy; ey++)
            for (int ex = bx + 1; ex <= dx; ex++) {
              OUT lo = static_cast<OUT>(m.at(bx, by, bz)), hi = lo;
              for (int z = bz; z < ez; z++)
                for (int y = by; y < ey; y++)
                  for (int x = bx; x < ex; x++) {
                    const OUT c = static_cast<OUT>(m.at(x, y, z));
                    lo = c < lo ? c : lo;
                    hi = hi < c ? c : hi;
                  }
              const range_t<OUT> r = ba.getValueRange(vec3i(bx, by, bz), vec3i(ex, ey, ez));
              C.states++;
              C.trans += 1;
              if (!(r.lower == lo && r.upper == hi))
                viol(C, A + "::getValueRange(begin,end)|is not [min,max] of the converted values of the region|any", spec,
                    "dims " + s3(dims) + " region " + s3(bx, by, bz) + ".." + s3(ex, ey, ez) + " got [" + sval(r.lower) + "," + sval(r.upper) + "] want [" + sval(lo) + "," + sval(hi) + "]");
            }
  vr::sample(A + " dims " + s3(dims) + ": every cell, e.g. " + sval(m.at(dx - 1, dy - 1, dz - 1)) + " -> " + sval(ba.get(vec3i(dx - 1, dy - 1, dz - 1))), "access" + tn);
  C.commit();
}

// ------------------------------------------------------------------ MultiSliceArray3D
// n slices of extent (dx,dy,sd); slice s holds val1 + 50*s
template <typename T>
static void check_mslice(int dx, int dy, int n, int sd)
{
  Counters C;
  const std::string tn = TName<T>::n();
  const std::string spec = "mslice:" + tn + "," + sll(dx) + "," + sll(dy) + "," + sll(n) + "," + sll(sd);
  const std::string A = "MultiSliceArray3D<" + tn + ">";
  const std::string cls = std::to_string(n) + (n == 1 ? " slice" : " slices");
  std::vector<Model<T>> ms;
  std::vector<std::shared_ptr<Array3D<T>>> sa, sp;
  for (int s = 0; s < n; s++) {
    ms.push_back(Model<T>(dx, dy, sd));
    sa.push_back(filled<T>(dx, dy, sd, ms.back(), 50 * s));
    sp.push_back(std::make_shared<ProbeArray3D<T>>(vec3i(dx, dy, sd), s + 1));
  }
  MultiSliceArray3D<T> ma(sa), mp(sp);
  const Array3D<T> &ba = ma, &bp = mp;
  C.states++;
  C.trans += 2;
  if (!(ba.size() == vec3i(dx, dy, n)))
    viol(C, A + "::size|is not (slice.x, slice.y, number of slices)|" + cls, spec, "got " + s3(ba.size()));
  if (sd == 1 && ba.numElements() != (size_t)dx * dy * n)
    viol(C, A + "::numElements|is not slice cells times number of slices|" + cls, spec, "got " + std::to_string(ba.numElements()));
  // z also outside [0,n): the adaptor's definition clamps the slice number (x,y stay inside the slice)
  for (int zq = -2; zq <= n + 1; zq++)
    for (int y = 0; y < dy; y++)
      for (int x = 0; x < dx; x++) {
        const int z = zq < 0 ? 0 : zq >= n ? n - 1 : zq;
        const T g = ba.get(vec3i(x, y, zq));
        const ll gp = (ll)bp.get(vec3i(x, y, zq));
        const T w = ms[z].at(x, y, 0);
        C.states++;
        C.trans += 2;
        C.obs((uint64_t)gp);
        const std::string zc = zq == z ? "" : ", z outside [0,n) is clamped";
        rp("get" + s3(x, y, zq) + " = " + sval(g) + " want " + sval(w) + "; read cell " + decode(gp));
        if (!(g == w))
          viol(C, A + "::get|value is not cell (x,y,0) of slice z" + zc + "|" + cls, spec,
              "slices " + sll(n) + " of " + s3(dx, dy, sd) + " get" + s3(x, y, zq) + " = " + sval(g) + " want " + sval(w));
        if (gp != ProbeArray3D<T>::code(x, y, 0, z + 1))
          viol(C, A + "::get|asks for a cell other than (x,y,0) of slice z" + zc + "|" + cls, spec,
              "slices " + sll(n) + " of " + s3(dx, dy, sd) + " get" + s3(x, y, zq) + " read cell " + decode(gp) + " want " + s3(x, y, 0) + " of slice " + sll(z));
      }
  vr::sample(A + " " + cls + " of " + s3(dx, dy, sd) + ": every cell, z in [-2,n+1]", "mslice" + tn + cls);
  C.commit();
}

// ------------------------------------------------------------------ getValueRange
// value patterns over an extent: 8 "corner" patterns (signed weights per axis: the extremes of any region sit
// in two opposite corners of it) and, per cell, a positive and a negative spike at that cell
template <typename T>
static T pattern_value(int pat, int x, int y, int z, int dx, int dy, int dz)
{
  if (pat < 8) {
    const int sx = (pat & 1) ? -1 : 1, sy = (pat & 2) ? -1 : 1, sz = (pat & 4) ? -1 : 1;
    return T(60 + sx * (x + 1) + sy * 5 * (y + 1) + sz * 25 * (z + 1)) / T(2);  // halves: float/double get fractions, int rounds
  }
  const int k = (pat - 8) / 2, cell = x + dx * (y + dy * z);
  if (cell != k)
    return T(10);
  return (pat - 8) % 2 ? T(3) : T(17);
}
static int n_patterns(int dx, int dy, int dz)
{
  return 8 + 2 * dx * dy * dz;
}

template <typename T>
struct FnArray3D : public Array3D<T>  // harness-side implementation of the interface backed by the model
{
  Model<T> *m;
  FnArray3D(Model<T> *m) : m(m) {}
  vec3i size() const override
  {
    return vec3i(m->dx, m->dy, m->dz);
  }
  T get(const vec3i &w) const override
  {
    return m->clamped(w.x, w.y, w.z);
  }
  size_t numElements() const override
  {
    return (size_t)m->dx * m->dy * m->dz;
  }
};

template <typename T>
static void check_vrange(int dx, int dy, int dz, const std::vector<ll> &only)
{
  Counters C;
  const std::string tn = TName<T>::n();
  const std::string base_spec = "vrange:" + tn + "," + sll(dx) + "," + sll(dy) + "," + sll(dz);
  const vec3i dims(dx, dy, dz);
  const int np = n_patterns(dx, dy, dz);
  for (int pat = 0; pat < np; pat++) {
    if (!only.empty() && only[0] != pat)
      continue;
    Model<T> m(dx, dy, dz);
    std::shared_ptr<ActualArray3D<T>> act = std::make_shared<ActualArray3D<T>>(dims);
    for (int z = 0; z < dz; z++)
      for (int y = 0; y < dy; y++)
        for (int x = 0; x < dx; x++) {
          m.at(x, y, z) = pattern_value<T>(pat, x, y, z, dx, dy, dz);
          act->set(vec3i(x, y, z), m.at(x, y, z));
        }
    FnArray3D<T> fn(&m);
    std::shared_ptr<Array3D<T>> actb = act;
    SubBoxArray3D<T> whole(actb, box3i(vec3i(0), dims));
    const Array3D<T> *impl[3] = {act.get(), &fn, &whole};
    const char *iname[3] = {"ActualArray3D", "harness-implemented Array3D", "SubBoxArray3D(full)"};
    const char *pcls = pat < 8 ? "extremes in corners" : (pat % 2 ? "single minimum" : "single maximum");
    // regions may reach one cell beyond the extent on either side: the values there are what get() returns there
    // (the nearest cell, all three implementations clamp)
    for (int bz = -1; bz < dz; bz++)
      for (int by = -1; by < dy; by++)
        for (int bx = -1; bx < dx; bx++)
          for (int ez = bz + 1; ez <= dz + 1; ez++)
            for (int ey = by + 1; ey <= dy + 1; ey++)
              for (int ex = bx + 1; ex <= dx + 1; ex++) {
                if (only.size() >= 7 && !(only[1] == bx && only[2] == by && only[3] == bz && only[4] == ex && only[5] == ey && only[6] == ez))
                  continue;
                T lo = m.clamped(bx, by, bz), hi = lo;
                for (int z = bz; z < ez; z++)
                  for (int y = by; y < ey; y++)
                    for (int x = bx; x < ex; x++) {
                      lo = std::min(lo, m.clamped(x, y, z));
                      hi = std::max(hi, m.clamped(x, y, z));
                    }
                const bool full = bx == 0 && by == 0 && bz == 0 && ex == dx && ey == dy && ez == dz;
                const std::string spec = base_spec + "," + sll(pat) + "," + sll(bx) + "," + sll(by) + "," + sll(bz) + "," + sll(ex) + "," + sll(ey) + "," + sll(ez);
                const size_t cells = (size_t)(ex - bx) * (ey - by) * (ez - bz);
                const bool outside = bx < 0 || by < 0 || bz < 0 || ex > dx || ey > dy || ez > dz;
                const std::string rcls = outside ? "region reaching beyond the extent" : cells == 1 ? "single cell region" : full ? "full region" : "proper sub-region";
                for (int k = 0; k < 3; k++) {
                  const range_t<T> r = impl[k]->getValueRange(vec3i(bx, by, bz), vec3i(ex, ey, ez));
                  C.states++;
                  C.trans += 2;
                  C.obs((uint64_t)(ll)(r.lower * 4) * 1024 + (uint64_t)(ll)(r.upper * 4));
                  if (only.size() >= 7)
                    rp(std::string(iname[k]) + " getValueRange" + s3(bx, by, bz) + ".." + s3(ex, ey, ez) + " = [" + sval(r.lower) + "," + sval(r.upper) + "] want [" + sval(lo) + "," + sval(hi) + "]");
                  if (!(r.lower <= lo && r.upper >= hi))
                    viol(C, std::string("Array3D::getValueRange(begin,end)|does not bound every value of the region|") + pcls + ", " + rcls, spec,
                        std::string(iname[k]) + " dims " + s3(dims) + " region " + s3(bx, by, bz) + ".." + s3(ex, ey, ez) + " got [" + sval(r.lower) + "," + sval(r.upper) + "] want [" +
                            sval(lo) + "," + sval(hi) + "]");
                  else if (!(r.lower == lo && r.upper == hi))
                    viol(C, std::string("Array3D::getValueRange(begin,end)|bound is not tight|") + pcls + ", " + rcls, spec,
                        std::string(iname[k]) + " dims " + s3(dims) + " region " + s3(bx, by, bz) + ".." + s3(ex, ey, ez) + " got [" + sval(r.lower) + "," + sval(r.upper) + "] want [" +
                            sval(lo) + "," + sval(hi) + "]");
                  if (full) {
                    const range_t<T> r2 = impl[k]->getValueRange();
                    C.trans++;
                    if (!(r2.lower == lo && r2.upper == hi))
                      viol(C, std::string("Array3D::getValueRange()|is not [min,max] of the whole array|") + pcls, spec,
                          std::string(iname[k]) + " dims " + s3(dims) + " got [" + sval(r2.lower) + "," + sval(r2.upper) + "] want [" + sval(lo) + "," + sval(hi) + "]");
                  }
                }
              }
  }
  vr::sample("getValueRange<" + tn + "> dims " + s3(dims) + ": " + sll(np) + " value patterns x every non-empty region [begin,end)", "vrange" + tn);
  C.commit();
}

// ------------------------------------------------------------------ dispatch
template <typename T>
static void dispatch_T(const std::string &kind, const std::vector<ll> &v)
{
  std::vector<ll> rest;
  if (kind == "actual")
    check_actual<T>((int)v[0], (int)v[1], (int)v[2]);
  else if (kind == "shift") {
    rest.assign(v.begin() + 3, v.end());
    check_shift<T>((int)v[0], (int)v[1], (int)v[2], rest);
  } else if (kind == "subbox") {
    rest.assign(v.begin() + 3, v.end());
    check_subbox<T>((int)v[0], (int)v[1], (int)v[2], rest);
  } else if (kind == "mslice")
    check_mslice<T>((int)v[0], (int)v[1], (int)v[2], (int)v[3]);
  else if (kind == "vrange") {
    rest.assign(v.begin() + 3, v.end());
    check_vrange<T>((int)v[0], (int)v[1], (int)v[2], rest);
  }
}

static bool run_case(const std::string &spec)
{
  const size_t c = spec.find(':');
  if (c == std::string::npos)
    return false;
  const std::string kind = spec.substr(0, c);
  std::string arg = spec.substr(c + 1);
  if (kind == "seq3" || kind == "seq2" || kind == "v3i" || kind == "foreach") {
    std::vector<std::string> parts;
    std::stringstream ss(arg);
    std::string item;
    std::vector<u64> u;
    while (std::getline(ss, item, ','))
      u.push_back(strtoull(item.c_str(), nullptr, 10));
    const std::vector<ll> v = parse_ints(arg);
    if (kind == "seq3" && u.size() == 3)
      check_seq3(u[0], u[1], u[2]);
    else if (kind == "seq2" && u.size() == 2)
      check_seq2(u[0], u[1]);
    else if (kind == "v3i" && v.size() == 3)
      check_v3i((int)v[0], (int)v[1], (int)v[2]);
    else if (kind == "foreach" && v.size() == 6)
      check_foreach((int)v[0], (int)v[1], (int)v[2], (int)v[3], (int)v[4], (int)v[5]);
    else
      return false;
    return true;
  }
  const size_t k = arg.find(',');
  if (k == std::string::npos)
    return false;
  const std::string tn = arg.substr(0, k);
  const std::vector<ll> v = parse_ints(arg.substr(k + 1));
  if (v.size() < 3)
    return false;
  if (kind == "access") {
    if (tn == "i>f")
      check_access<int, float>((int)v[0], (int)v[1], (int)v[2]);
    else if (tn == "f>i")
      check_access<float, int>((int)v[0], (int)v[1], (int)v[2]);
    else if (tn == "i>u32")
      check_access<int, unsigned>((int)v[0], (int)v[1], (int)v[2]);
    else
      return false;
    return true;
  }
  if (kind == "mslice" && v.size() < 4)
    return false;
  if (tn == "i")
    dispatch_T<int>(kind, v);
  else if (tn == "f")
    dispatch_T<float>(kind, v);
  else if (tn == "u8")
    dispatch_T<unsigned char>(kind, v);
  else if (tn == "d")
    dispatch_T<double>(kind, v);
  else
    return false;
  return true;
}

static std::string ctx_of(const std::string &spec)
{
  const std::string kind = spec.substr(0, spec.find(':'));
  if (kind == "seq3" || kind == "seq2")
    return "multidim_index_sequence";
  if (kind == "v3i")
    return "array3D index maps";
  if (kind == "foreach")
    return "array3D::for_each";
  if (kind == "actual")
    return "ActualArray3D set/get";
  if (kind == "shift")
    return "IndexShiftedArray3D::get";
  if (kind == "subbox")
    return "SubBoxArray3D::get";
  if (kind == "access")
    return "Array3DAccessor::get";
  if (kind == "mslice")
    return "MultiSliceArray3D::get";
  return "Array3D::getValueRange";
}

int main(int argc, char **argv)
{
  vr::init(argc, argv);
  if (vr::replaying()) {
    printf("replaying case %s\n", vr::S().replay.c_str());
    if (!run_case(vr::S().replay))
      printf("cannot parse replay spec '%s'\n", vr::S().replay.c_str());
    vr::flush();
    return vr::S().viols.empty() ? 0 : 1;
  }
  // Cases are grouped into shards; a shard is one forked child.  A crash loses what the child found before it
  // in the same shard, so everything that touches memory or can trip UBSan runs one case per shard; only the
  // for_each cases (no memory, no arithmetic) are chunked.
  std::vector<std::vector<std::string>> groups;
  auto add = [&](const std::string &s) { groups.push_back(std::vector<std::string>(1, s)); };
  auto st = [](u64 v) { return std::to_string(v); };
  // --- index maps, small extents: every extent in [0,5]^N (an extent 0 is an empty sequence)
  for (u64 dz = 0; dz <= 5; dz++)
    for (u64 dy = 0; dy <= 5; dy++)
      for (u64 dx = 0; dx <= 5; dx++) {
        add("seq3:" + st(dx) + "," + st(dy) + "," + st(dz));
        if (dx && dy && dz)
          add("v3i:" + st(dx) + "," + st(dy) + "," + st(dz));
      }
  for (u64 dy = 0; dy <= 5; dy++)
    for (u64 dx = 0; dx <= 5; dx++)
      add("seq2:" + st(dx) + "," + st(dy));
  // --- index maps, large extents whose total still fits 64 bits (the statement's [0,total) must be representable)
  const u64 BIG[] = {1, 2, 3, 1000, 46341, 65536, 1u << 21, 1u << 22, 2147483647ull};
  const u64 BIG64[] = {4294967296ull, 4294967297ull, 1ull << 40};  // size_t extents only
  std::vector<u64> big(BIG, BIG + 9), big64(BIG, BIG + 9);
  big64.insert(big64.end(), BIG64, BIG64 + 3);
  for (u64 dz : big64)
    for (u64 dy : big64)
      for (u64 dx : big64)
        if ((u128)dx * dy * dz < ((u128)1 << 64))
          add("seq3:" + st(dx) + "," + st(dy) + "," + st(dz));
  for (u64 dy : big64)
    for (u64 dx : big64)
      if ((u128)dx * dy < ((u128)1 << 64))
        add("seq2:" + st(dx) + "," + st(dy));
  for (u64 dz : big)
    for (u64 dy : big)
      for (u64 dx : big)
        if ((u128)dx * dy * dz < ((u128)1 << 64))
          add("v3i:" + st(dx) + "," + st(dy) + "," + st(dz));
  // --- for_each: every lower, upper in [-1,3]^3 (thorough [-1,4]^3); upper <= lower on an axis = empty region
  const int FE = vr::thorough() ? 4 : 3;
  for (int lz = -1; lz <= FE; lz++)
    for (int ly = -1; ly <= FE; ly++)
      for (int lx = -1; lx <= FE; lx++) {
        groups.push_back(std::vector<std::string>());
        for (int uz = -1; uz <= FE; uz++)
          for (int uy = -1; uy <= FE; uy++)
            for (int ux = -1; ux <= FE; ux++)
              groups.back().push_back("foreach:" + sll(lx) + "," + sll(ly) + "," + sll(lz) + "," + sll(ux) + "," + sll(uy) + "," + sll(uz));
      }
  // --- arrays and adaptors: every extent in [1,4]^3 (thorough [1,5]^3)
  const int AR = vr::thorough() ? 5 : 4;
  const int VR = vr::thorough() ? 4 : 3;  // getValueRange extents
  const char *types[] = {"i", "f", "u8", "d"};
  for (int dz = 1; dz <= AR; dz++)
    for (int dy = 1; dy <= AR; dy++)
      for (int dx = 1; dx <= AR; dx++) {
        const std::string d = sll(dx) + "," + sll(dy) + "," + sll(dz);
        for (int t = 0; t < 4; t++)
          add(std::string("actual:") + types[t] + "," + d);
        for (int t = 0; t < 2; t++) {
          add(std::string("shift:") + types[t] + "," + d);
          add(std::string("subbox:") + types[t] + "," + d);
          if (dx <= VR && dy <= VR && dz <= VR)
            add(std::string("vrange:") + types[t] + "," + d);
        }
        add("access:i>f," + d);
        add("access:f>i," + d);
        add("access:i>u32," + d);
      }
  for (int dy = 1; dy <= AR; dy++)
    for (int dx = 1; dx <= AR; dx++)
      for (int n = 1; n <= 3; n++)
        for (int sd = 1; sd <= 2; sd++)
          for (int t = 0; t < 2; t++)
            add(std::string("mslice:") + types[t] + "," + sll(dx) + "," + sll(dy) + "," + sll(n) + "," + sll(sd));

  vr::run_sharded((int)groups.size(), [&](int shard, long long resume_after) {
    const std::vector<std::string> &cases = groups[shard];
    for (size_t i = 0; i < cases.size(); i++) {
      if ((long long)i <= resume_after)
        continue;
      // milliseconds per case, except getValueRange over every region of the larger extents (thorough tier)
      vr::case_timeout_s() = cases[i].compare(0, 7, "vrange:") == 0 ? 600 : 10;
      vr::begin_case((long long)i, ctx_of(cases[i]), cases[i]);
      if (!run_case(cases[i]))
        vr::violation("harness|unparsable case", cases[i], "internal");
      vr::stat("cases");
    }
  }, 16, 10);  // 10 s per case (they take milliseconds): a case that does not return ends as "<context>|signal:Alarm clock"
  vr::stat("shards", (long long)groups.size());
  vr::stat("traces", vr::S().stats["states"]);
  return vr::finish();
}
