// C09: Optional explorer instantiated for one payload (own translation unit: parallel build).
#include "C09_optexplore.h"
namespace c09 {
PayloadEntry entry_int()
{
  return Explorer<PInt, false>::entry("int");  // must equal Explorer::pname()
}
}  // namespace c09
