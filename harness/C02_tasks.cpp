// C02: scheduled and async tasks run exactly once and deliver their result safely.
// Engine mcsched: every schedule up to a deviation bound of the calling thread against the
// pool worker / detached thread that executes the task, with the happens-before race detector
// and the lifetime (quarantine) oracle watching the task objects, closures and result members.
#include "mcsched/mcsched.h"

#include "rkcommon/tasking/AsyncTask.h"
#include "rkcommon/tasking/async.h"
#include "rkcommon/tasking/schedule.h"
#include "rkcommon/tasking/tasking_system_init.h"

#include <semaphore.h>
#include <atomic>
#include <cstring>
#include <memory>
#include <new>
#include <string>
#include <vector>

using namespace rkcommon::tasking;

#ifndef C02_POOL_THREADS
#define C02_POOL_THREADS 2
#endif

static void init_pool()
{
#if defined(RKCOMMON_TASKING_INTERNAL)
  initTaskingSystem(C02_POOL_THREADS);
#endif
}

static void __attribute__((noinline)) opaque_fill(void *p, int c, size_t n)
{
  memset(p, c, n);
  __asm__ __volatile__("" : : "r"(p) : "memory");
}

// ---------------------------------------------------------------- payload types
static const int LIVE = 0x600DF00D, DEAD = 0x0BADBEEF;
struct Tracked
{
  int magic;
  int val;
  Tracked() : magic(LIVE), val(-1) {}
  explicit Tracked(int v) : magic(LIVE), val(v) {}
  Tracked(const Tracked &o) : magic(LIVE), val(o.val)
  {
    MC_CHECK(o.magic == LIVE, "payload copied from storage that holds no live object", "copy-construct from a not-yet-constructed or destroyed result");
  }
  Tracked &operator=(const Tracked &o)
  {
    MC_CHECK(magic == LIVE, "payload assigned into storage that holds no live object",
        "operator= on a result member that is not (yet) constructed or already destroyed");
    MC_CHECK(o.magic == LIVE, "payload copied from storage that holds no live object", "assign from dead object");
    val = o.val;
    return *this;
  }
  ~Tracked()
  {
    MC_CHECK(magic == LIVE, "payload destroyed twice or never constructed", "destructor on storage that holds no live object");
    magic = DEAD;
  }
};

template <typename T>
struct Make;
template <>
struct Make<int>
{
  static int v(int k) { return 1000 + k; }
  static bool eq(int a, int k) { return a == 1000 + k; }
  static std::string show(int a) { return std::to_string(a); }
};
template <>
struct Make<std::string>
{
  static std::string v(int k) { return std::string(30, 'r') + std::to_string(k); }
  static bool eq(const std::string &a, int k) { return a == v(k); }
  static std::string show(const std::string &a) { return "'" + a + "'"; }
};
template <>
struct Make<Tracked>
{
  static Tracked v(int k) { return Tracked(k); }
  static bool eq(const Tracked &a, int k) { return a.magic == LIVE && a.val == k; }
  static std::string show(const Tracked &a) { return "Tracked(" + std::to_string(a.val) + ")"; }
};

// ---------------------------------------------------------------- schedule()
struct Shared
{
  std::atomic<int> runs[4];
  sem_t done;
};

static void schedule_scenario(int k)
{
  init_pool();
  Shared *sh = new Shared();  // leaked: a task may legitimately finish its epilogue after we stop looking
  for (int i = 0; i < 4; i++)
    sh->runs[i].store(0);
  sem_init(&sh->done, 0, 0);
  for (int i = 0; i < k; i++) {
    // closure owning heap state, captured by value
    std::shared_ptr<std::vector<int>> heap = std::make_shared<std::vector<int>>(8, i + 1);
    std::string tag = std::string(28, 't') + std::to_string(i);
    auto fn = [sh, heap, tag, i]() {
      long sum = 0;
      for (int x : *heap)
        sum += x;
      MC_CHECK(sum == 8 * (i + 1) && tag.size() == 29, "schedule|closure state corrupted", "captured heap state differs");
      sh->runs[i].fetch_add(1);
      sem_post(&sh->done);
    };
    // every second closure is handed over as an LVALUE that dies at the end of this iteration: the scheduled
    // copy must be the task's own
    if (i & 1)
      schedule(fn);
    else
      schedule(std::move(fn));
  }
  // "eventually, with no further action required from the caller": the caller only blocks
  for (int i = 0; i < k; i++)
    sem_wait(&sh->done);
  // let the executing thread finish its epilogue (task release) under the oracles
  for (int i = 0; i < 4; i++)
    mc_yield();
  std::string obs;
  for (int i = 0; i < k; i++) {
    int r = sh->runs[i].load();
    obs += std::to_string(r);
    MC_CHECK(r == 1, "schedule|closure not executed exactly once", obs.c_str());
  }
  mc_eventf("ran" + obs);
}

// schedule() through ONE call site across re-initialisations of the tasking system with
// different pool sizes (a value cached per call site or per process would show here)
static void reinit_scenario(const char *sizes)
{
  Shared *sh = new Shared();
  for (int i = 0; i < 4; i++)
    sh->runs[i].store(0);
  sem_init(&sh->done, 0, 0);
  std::string obs;
  for (int i = 0; sizes[i]; i++) {
#if defined(RKCOMMON_TASKING_INTERNAL)
    initTaskingSystem(sizes[i] - '0');
#endif
    std::shared_ptr<std::vector<int>> heap = std::make_shared<std::vector<int>>(4, i + 1);
    schedule([sh, heap, i]() {
      MC_CHECK((*heap)[3] == i + 1, "schedule|closure state corrupted", "captured heap state differs");
      sh->runs[i].fetch_add(1);
      sem_post(&sh->done);
    });
    sem_wait(&sh->done);
    for (int k = 0; k < 3; k++)
      mc_yield();
    obs += std::to_string(sh->runs[i].load());
    MC_CHECK(sh->runs[i].load() == 1, "schedule|closure not executed exactly once", obs.c_str());
  }
  mc_eventf("reinit" + obs);
}

// re-initialisation while scheduled functions are still pending: they must still run exactly once
static void reinit_pending_scenario(const char *sizes)
{
  Shared *sh = new Shared();
  for (int i = 0; i < 4; i++)
    sh->runs[i].store(0);
  sem_init(&sh->done, 0, 0);
  int n = 0;
  for (int i = 0; sizes[i] && i < 3; i++) {
#if defined(RKCOMMON_TASKING_INTERNAL)
    initTaskingSystem(sizes[i] - '0');
#endif
    // not waited for before the next initialisation
    std::shared_ptr<std::vector<int>> heap = std::make_shared<std::vector<int>>(4, i + 1);
    schedule([sh, heap, i]() {
      MC_CHECK((*heap)[3] == i + 1, "schedule|closure state corrupted", "captured heap state differs");
      sh->runs[i].fetch_add(1);
      sem_post(&sh->done);
    });
    n++;
  }
  for (int i = 0; i < n; i++)
    sem_wait(&sh->done);
  for (int k = 0; k < 3; k++)
    mc_yield();
  std::string obs;
  for (int i = 0; i < n; i++) {
    obs += std::to_string(sh->runs[i].load());
    MC_CHECK(sh->runs[i].load() == 1, "schedule|closure pending at a re-initialisation not executed exactly once", obs.c_str());
  }
  mc_eventf("pending" + obs);
}

// ---------------------------------------------------------------- async()
template <typename T>
static void async_scenario(int k)
{
  init_pool();
  std::atomic<int> *runs = new std::atomic<int>[2];
  runs[0].store(0);
  runs[1].store(0);
  std::vector<std::future<T>> futs;
  for (int i = 0; i < k; i++)
    futs.push_back(async([runs, i]() {
      runs[i].fetch_add(1);
      return Make<T>::v(i);
    }));
  std::string obs;
  for (int i = k - 1; i >= 0; i--) {
    T v = futs[i].get();
    obs += Make<T>::show(v) + " ";
    MC_CHECK(Make<T>::eq(v, i), "async|future.get() is not the value the function returned", obs.c_str());
  }
  for (int i = 0; i < 4; i++)
    mc_yield();
  for (int i = 0; i < k; i++)
    MC_CHECK(runs[i].load() == 1, "async|function not executed exactly once", obs.c_str());
  mc_eventf("got" + std::to_string(k));
}

// ---------------------------------------------------------------- AsyncTask
template <typename T>
static void asynctask_scenario(const char *script)
{
  init_pool();
  std::atomic<int> *runs = new std::atomic<int>(0);
  std::atomic<int> *inbody = new std::atomic<int>(0);
  // deterministic "unconstructed" storage for the AsyncTask object
  // (zero-filled through an opaque call: the compiler may otherwise drop a fill that precedes
  // the constructor, and the content of recycled heap memory differs between processes)
  void *mem = ::operator new(sizeof(AsyncTask<T>) + 64);
  opaque_fill(mem, 0, sizeof(AsyncTask<T>) + 64);
  AsyncTask<T> *t = new (mem) AsyncTask<T>([runs, inbody]() {
    inbody->store(1);
    runs->fetch_add(1);
    T r = Make<T>::v(7);
    inbody->store(0);
    return r;
  });
  std::string obs;
  for (const char *c = script; *c; c++) {
    if (*c == 'f') {
      bool f = t->finished();
      obs += f ? "F" : "f";
      if (f) {
        T v = t->get();
        MC_CHECK(Make<T>::eq(v, 7), "AsyncTask|finished()==true but get() is not the function's value", (obs + " " + Make<T>::show(v)).c_str());
      }
    } else if (*c == 'g') {
      T v = t->get();
      obs += "g";
      MC_CHECK(Make<T>::eq(v, 7), "AsyncTask|get() is not the value the function returned", (obs + " " + Make<T>::show(v)).c_str());
      MC_CHECK(t->finished(), "AsyncTask|not finished() after get()", obs.c_str());
    } else if (*c == 'w') {
      t->wait();
      obs += "w";
      MC_CHECK(t->finished(), "AsyncTask|not finished() after wait()", obs.c_str());
    } else if (*c == 'v') {
      bool f = t->valid();
      obs += f ? "V" : "v";
    }
  }
  t->~AsyncTask<T>();
  MC_CHECK(runs->load() == 1 && inbody->load() == 0, "AsyncTask|destructor returned before the task had completed exactly once", obs.c_str());
  opaque_fill(mem, 0xCD, sizeof(AsyncTask<T>));
  for (int i = 0; i < 4; i++)
    mc_yield();
  MC_CHECK(runs->load() == 1, "AsyncTask|function not executed exactly once", obs.c_str());
  ::operator delete(mem);
  mc_eventf(obs);
}

// ---------------------------------------------------------------- registration
static void entry()
{
  // <kind>_<type>_<param>
  std::string n = mc_scenario_name();
  size_t a = n.find('_'), b = n.find('_', a + 1);
  std::string kind = n.substr(0, a), type = n.substr(a + 1, b - a - 1), param = n.substr(b + 1);
  if (kind == "schedule")
    schedule_scenario(atoi(param.c_str()));
  else if (kind == "reinit")
    reinit_scenario(param.c_str());
  else if (kind == "repend")
    reinit_pending_scenario(param.c_str());
  else if (kind == "async") {
    int k = atoi(param.c_str());
    if (type == "int")
      async_scenario<int>(k);
    else if (type == "str")
      async_scenario<std::string>(k);
    else
      async_scenario<Tracked>(k);
  } else {
    if (type == "int")
      asynctask_scenario<int>(param.c_str());
    else if (type == "str")
      asynctask_scenario<std::string>(param.c_str());
    else
      asynctask_scenario<Tracked>(param.c_str());
  }
}

struct Reg
{
  Reg()
  {
    auto add = [](const std::string &name, int bq, int bt) { new McRegister(strdup(name.c_str()), entry, bq, bt, 8000); };
    for (int k = 1; k <= 3; k++)
      add("schedule_x_" + std::to_string(k), k == 3 ? 2 : 3, k == 3 ? 3 : 4);
    for (const char *seq : {"21", "12", "212", "121", "22", "11"})
      add(std::string("reinit_x_") + seq, 2, 3);
    for (const char *seq : {"22", "21", "12", "222"})
      add(std::string("repend_x_") + seq, 2, 3);
    const char *types[] = {"int", "str", "trk"};
    for (const char *ty : types)
      for (int k = 1; k <= 2; k++)
        add(std::string("async_") + ty + "_" + std::to_string(k), k == 2 ? 2 : 3, k == 2 ? 3 : 4);
    std::vector<std::string> scripts;
    scripts.push_back("");
    for (size_t i = 0; i < scripts.size(); i++)
      if (scripts[i].size() < 3)
        for (char c : std::string("fgw"))
          scripts.push_back(scripts[i] + c);
    for (const char *ty : types)
      for (auto &s : scripts) {
        bool full = std::string(ty) == "str";
        if (!full && s.size() > 2)
          continue;
        add(std::string("asynctask_") + ty + "_" + s, s.size() == 3 ? 2 : 3, 4);
      }
    add("asynctask_str_vfv", 3, 4);
  }
};
static Reg reg;
