// mcsched runtime: cooperative scheduler + fake TSan runtime + pthread/semaphore/futex
// interposition + happens-before race detector + lifetime oracle + deviation-bounded explorer.
//
// This file is compiled WITHOUT -fsanitize=thread.  The harness and the rkcommon sources it
// uses are compiled WITH -fsanitize=thread (g++), so every atomic, volatile and plain memory
// access in them is a call into the __tsan_* functions defined here.  The executable is linked
// without the real TSan runtime.
#include <dlfcn.h>
#include <errno.h>
#include <linux/futex.h>
#include <malloc.h>
#include <poll.h>
#include <execinfo.h>
#include <pthread.h>
#include <sched.h>
#include <semaphore.h>
#include <sys/resource.h>
#include <sys/socket.h>
#include <sys/syscall.h>
#include <sys/wait.h>
#include <unistd.h>

#include <algorithm>
#include <chrono>
#include <cstdint>
#include <cstdio>
#include <cstdlib>
#include <cstring>
#include <map>
#include <new>
#include <set>
#include <string>
#include <unordered_map>
#include <unordered_set>
#include <vector>

#include "common/vreport.h"
#include "mcsched/mcsched.h"

McScenario *&mc_scenarios()
{
  static McScenario *head = nullptr;
  return head;
}

// =========================================================================================
// child-side state (one execution)
// =========================================================================================
#define MAXT 8
enum St
{
  FREE,
  RUNNABLE,
  BLOCK_MUTEX,
  BLOCK_COND,
  BLOCK_JOIN,
  BLOCK_SEM,
  BLOCK_FUTEX,
  YIELDED,
  DONE
};
static const char *st_name[] = {"free", "runnable", "mutex", "cond", "join", "sem", "futex", "yielded", "done"};

struct Th
{
  int st;
  int turn;
  void *waitobj;
  int jointarget;
  bool soft;      // yielded by the re-read heuristic: may be continued at the cost of a deviation
  bool timed;     // a timed wait: may time out when nothing else can run
  bool timedout;
  bool detached;
  pthread_t real;
  void *(*fn)(void *);
  void *arg;
  long lastrun;
};
static Th T[MAXT];
static int nthreads = 0;
static __thread int me = -1;
static bool active = false;
static __thread int in_rt = 0;
struct RtGuard
{
  RtGuard() { in_rt++; }
  ~RtGuard() { in_rt--; }
};

static std::vector<unsigned char> prefix;      // choices to replay
static std::vector<unsigned char> choices;     // choices made (only at points with >1 alternative)
static std::vector<unsigned char> nalt;        // alternatives at each such point
static long steps = 0, max_steps = 20000;
static long last_mod_step = 0;
static long livelock_window = 600;
static std::map<void *, int> *mutex_owner;  // mutex -> tid+1
static std::map<void *, int> *sem_val;
static unsigned long gmods = 1;
static long nyields = 0;
static long logical_clock_ns = 1000000000L;
static bool tracing = false;

struct StepRec
{
  unsigned char tid;
  const char *op;
  uintptr_t addr;
};
static std::vector<StepRec> *steplog;
static std::string *events;
static int out_fd = -1;

static __thread void *vw_pending;
static __thread int vw_size;
static __thread unsigned char vw_old[16];
static __thread bool vw_buffer;  // this volatile store was chosen to stay in the store buffer
static void vw_capture_buffered();  // moves the just-executed store into the store buffer (defined with the buffer)
static unsigned long own_mods_any[MAXT];
static inline void mod()
{
  gmods++;
  last_mod_step = steps;
  if (me >= 0)
    own_mods_any[me]++;
}
// per-location write versions: "the same location re-read at the same program point with no
// write to it in between" is what identifies a busy-wait iteration (a function of the
// happens-before state only, see state hashing below)
static std::unordered_map<uintptr_t, unsigned long> *wver;
static unsigned long own_mods[MAXT];
static inline void mod_at(const volatile void *a)
{
  mod();
  if (me >= 0)
    own_mods[me]++;
  if (wver)
    (*wver)[(uintptr_t)a]++;
}
static inline void vw_flush()
{
  if (vw_pending) {
    if (vw_buffer)
      vw_capture_buffered();
    else if (memcmp(vw_old, vw_pending, vw_size) != 0)
      mod_at(vw_pending);
    vw_pending = nullptr;
    vw_buffer = false;
  }
}

static void finish_execution(int code, const char *sig, const char *detail) __attribute__((noreturn));

template <class F>
static F next_sym(const char *n)
{
  return (F)dlsym(RTLD_NEXT, n);
}

static void fwait(int *addr, int val)
{
  syscall(SYS_futex, addr, FUTEX_WAIT, val, 0, 0, 0);
}
static void fwake(int *addr)
{
  syscall(SYS_futex, addr, FUTEX_WAKE, 1, 0, 0, 0);
}
static void give(int t)
{
  __atomic_store_n(&T[t].turn, 1, __ATOMIC_SEQ_CST);
  fwake(&T[t].turn);
}
static void take()
{
  while (!__atomic_load_n(&T[me].turn, __ATOMIC_SEQ_CST))
    fwait(&T[me].turn, 0);
  __atomic_store_n(&T[me].turn, 0, __ATOMIC_SEQ_CST);
}

// =========================================================================================
// happens-before race detector + lifetime oracle
// =========================================================================================
struct VC
{
  uint32_t c[MAXT];
  VC() { memset(c, 0, sizeof c); }
  void join(const VC &o)
  {
    for (int i = 0; i < MAXT; i++)
      if (o.c[i] > c[i])
        c[i] = o.c[i];
  }
};
static VC Cth[MAXT];
static std::unordered_map<uintptr_t, VC> *syncvc;
struct Shadow
{
  int wt;
  uint32_t wc;
  void *wpc;
  uint32_t rc[MAXT];
  void *rpc[MAXT];
  Shadow()
  {
    wt = -1;
    wc = 0;
    wpc = 0;
    memset(rc, 0, sizeof rc);
    memset(rpc, 0, sizeof rpc);
  }
};
static std::unordered_map<uintptr_t, Shadow> *shadow;  // per byte
static std::map<uintptr_t, size_t> *quarantine;        // freed blocks, never reused in an execution
static std::map<uintptr_t, void *> *freed_by;          // pc of the delete
static bool det_on = false;

static void report2(const char *kind, uintptr_t a, void *pc1, void *pc2)
{
  char sig[256], det[256];
  snprintf(sig, sizeof sig, "%s|{pc:%p}|{pc:%p}", kind, pc1, pc2);
  snprintf(det, sizeof det, "%s at address %p by thread %d", kind, (void *)a, me);
  finish_execution(2, sig, det);
}

static void det_init()
{
  syncvc = new std::unordered_map<uintptr_t, VC>();
  shadow = new std::unordered_map<uintptr_t, Shadow>();
  quarantine = new std::map<uintptr_t, size_t>();
  freed_by = new std::map<uintptr_t, void *>();
  for (int i = 0; i < MAXT; i++)
    Cth[i].c[i] = 1;
  det_on = true;
}
static inline void check_freed(uintptr_t a, void *pc)
{
  if (quarantine->empty())
    return;
  auto it = quarantine->upper_bound(a);
  if (it == quarantine->begin())
    return;
  --it;
  if (a < it->first + it->second)
    report2("use-after-free", a, pc, (*freed_by)[it->first]);
}
static void acq(uintptr_t o)
{
  auto it = syncvc->find(o);
  if (it != syncvc->end())
    Cth[me].join(it->second);
}
static void rel_join(uintptr_t o)
{
  (*syncvc)[o].join(Cth[me]);
  Cth[me].c[me]++;
}
static void rel_set(uintptr_t o)
{
  (*syncvc)[o] = Cth[me];
  Cth[me].c[me]++;
}
// C++11 memory orders as passed by the compiler: relaxed 0, consume 1, acquire 2, release 3,
// acq_rel 4, seq_cst 5.  The schedule is always sequentially consistent; the ORDERS decide
// which happens-before edges an atomic operation contributes to the race detector, so that
// e.g. a reference count decremented with memory_order_release only (no acquire before the
// delete) is reported as the data race it is.  Fences are modelled in the usual way: a
// relaxed load remembers the location's clock for a later acquire fence, a release fence
// remembers the thread's clock for later relaxed stores.
static VC AcqPending[MAXT];
static VC RelFence[MAXT];
static bool HasRelFence[MAXT];
static inline bool mo_acq(int mo)
{
  return mo == 1 || mo == 2 || mo == 4 || mo == 5;
}
static inline bool mo_rel(int mo)
{
  return mo == 3 || mo == 4 || mo == 5;
}
static void hb_load(uintptr_t o, int mo)
{
  auto it = syncvc->find(o);
  if (it == syncvc->end())
    return;
  if (mo_acq(mo))
    Cth[me].join(it->second);
  else
    AcqPending[me].join(it->second);
}
static void hb_store(uintptr_t o, int mo)
{
  if (mo_rel(mo))
    (*syncvc)[o] = Cth[me];
  else if (HasRelFence[me])
    (*syncvc)[o] = RelFence[me];
  else
    (*syncvc)[o] = VC();  // a relaxed store heads no release sequence
  Cth[me].c[me]++;
}
static void hb_rmw(uintptr_t o, int mo)
{
  auto it = syncvc->find(o);
  if (it != syncvc->end()) {
    if (mo_acq(mo))
      Cth[me].join(it->second);
    else
      AcqPending[me].join(it->second);
  }
  // an RMW continues the release sequence it reads from; it adds its own clock only if it releases
  if (mo_rel(mo))
    (*syncvc)[o].join(Cth[me]);
  else if (HasRelFence[me])
    (*syncvc)[o].join(RelFence[me]);
  Cth[me].c[me]++;
}
static void hb_fence(int mo)
{
  if (mo_acq(mo))
    Cth[me].join(AcqPending[me]);
  if (mo_rel(mo)) {
    RelFence[me] = Cth[me];
    HasRelFence[me] = true;
    Cth[me].c[me]++;
  }
}

// -----------------------------------------------------------------------------------------
// Store buffering (TSO-style) for atomic stores that are not seq_cst: such a store may stay in
// the storing thread's buffer while that thread goes on to perform LOADS - the store->load
// reordering that real hardware (x86 included) performs and that a Dekker-style handshake
// written with release/acquire or relaxed orders is broken by.  Keeping a store buffered is a
// recorded choice (one deviation); the buffer is drained, in order, before the thread's next
// visible operation that is not a load, and whenever the thread yields, blocks or exits, so
// every store becomes visible after finitely many steps.  The thread's own loads see its
// buffered values.  seq_cst stores, read-modify-writes and volatile accesses are never buffered.
// -----------------------------------------------------------------------------------------
struct SbEntry
{
  uintptr_t addr;
  int size;
  uint64_t val;
  VC pub;  // the clock a later acquire of this location obtains
};
static std::vector<SbEntry> SB[MAXT];
static bool tso_on = true;
static void dep_update(const char *op, uintptr_t addr);
static inline void mod_at(const volatile void *a);
static void sb_flush()
{
  if (me < 0 || SB[me].empty())
    return;
  for (SbEntry &e : SB[me]) {
    check_freed(e.addr, nullptr);
    switch (e.size) {
    case 1: __atomic_store_n((volatile uint8_t *)e.addr, (uint8_t)e.val, __ATOMIC_SEQ_CST); break;
    case 2: __atomic_store_n((volatile uint16_t *)e.addr, (uint16_t)e.val, __ATOMIC_SEQ_CST); break;
    case 4: __atomic_store_n((volatile uint32_t *)e.addr, (uint32_t)e.val, __ATOMIC_SEQ_CST); break;
    default: __atomic_store_n((volatile uint64_t *)e.addr, (uint64_t)e.val, __ATOMIC_SEQ_CST); break;
    }
    (*syncvc)[e.addr] = e.pub;
    mod_at((const volatile void *)e.addr);
    dep_update("store-commit", e.addr);
  }
  SB[me].clear();
}
static bool sb_forward(uintptr_t a, int size, uint64_t *out)
{
  if (me < 0 || SB[me].empty())
    return false;
  for (size_t i = SB[me].size(); i-- > 0;) {
    SbEntry &e = SB[me][i];
    if (e.addr == a && e.size == size) {
      *out = e.val;
      return true;
    }
    if (a < e.addr + e.size && e.addr < a + size) {  // partial overlap: give up the reordering
      sb_flush();
      return false;
    }
  }
  return false;
}

// A volatile store cannot be intercepted (the compiler's hook runs BEFORE the store instruction and
// does not see the value), but it can be taken back: the storing thread keeps the token from the hook
// until its next scheduling point, so nobody has seen the new value yet.  At that point the value is
// read from memory, moved into the thread's store buffer, and the old bytes are restored - which is
// indistinguishable, for every other thread, from the store still sitting in a hardware store buffer.
static bool tso_volatile = false;
static uint64_t TH[MAXT];
static inline uint64_t mix64(uint64_t h, uint64_t v);
static void vw_capture_buffered()
{
  SbEntry e;
  e.addr = (uintptr_t)vw_pending;
  e.size = vw_size;
  e.val = 0;
  memcpy(&e.val, vw_pending, vw_size);
  if (memcmp(vw_old, vw_pending, vw_size) == 0)
    return;  // a store of the value already there: nothing to hold back
  memcpy(vw_pending, vw_old, vw_size);
  e.pub = Cth[me];
  Cth[me].c[me]++;
  own_mods_any[me]++;
  TH[me] = mix64(TH[me], 0x6275666665726564ull ^ e.addr ^ e.val);
  SB[me].push_back(e);
}

static void plain(uintptr_t a, long n, bool wr, void *pc)
{
  if (!det_on || me < 0 || in_rt)
    return;
  RtGuard g;
  check_freed(a, pc);
  VC &C = Cth[me];
  for (long i = 0; i < n; i++) {
    Shadow &s = (*shadow)[a + i];
    if (s.wt >= 0 && s.wt != me && s.wc > C.c[s.wt])
      report2(wr ? "data-race:write-write" : "data-race:read-write", a + i, pc, s.wpc);
    if (wr) {
      for (int t = 0; t < MAXT; t++)
        if (t != me && s.rc[t] > C.c[t])
          report2("data-race:read-write", a + i, pc, s.rpc[t]);
      s.wt = me;
      s.wc = C.c[me];
      s.wpc = pc;
    } else {
      s.rc[me] = C.c[me];
      s.rpc[me] = pc;
    }
  }
}
static void clear_shadow(uintptr_t a, size_t n)
{
  if (!det_on)
    return;
  if (n > (1u << 16)) {
    for (auto it = shadow->begin(); it != shadow->end();) {
      if (it->first >= a && it->first < a + n)
        it = shadow->erase(it);
      else
        ++it;
    }
    return;
  }
  for (size_t i = 0; i < n; i++)
    shadow->erase(a + i);
}

// =========================================================================================
// happens-before state hashing (state caching in the sense of CHESS)
//
// Two schedule prefixes that order all *dependent* visible operations the same way leave the
// program in the same state (threads are deterministic between visible operations and all
// inter-thread communication goes through visible operations - the race detector checks the
// latter).  The partial order is captured by dependency clocks: every visible operation of a
// thread on an object joins the object's clock into the thread's clock, ticks, and stores the
// result back (all operations on one object are treated as mutually dependent, which is
// conservative: fewer prefixes are merged, never too many).  A thread's running hash folds
// (operation, clock) pairs, so equal per-thread hashes mean equal partial orders.
// =========================================================================================
static VC DC[MAXT];
static std::unordered_map<uintptr_t, VC> *depobj;
static std::vector<uint64_t> shash;  // state hash at each recorded choice point

static inline uint64_t mix64(uint64_t h, uint64_t v)
{
  h ^= v + 0x9e3779b97f4a7c15ull + (h << 6) + (h >> 2);
  h *= 0xff51afd7ed558ccdull;
  return h ^ (h >> 33);
}
static void dep_update(const char *op, uintptr_t addr)
{
  VC &d = DC[me];
  if (addr) {
    VC &o = (*depobj)[addr];
    d.join(o);
    d.c[me]++;
    o = d;
  } else
    d.c[me]++;
  uint64_t h = mix64(TH[me], vr::fnv(op, strlen(op)));
  for (int i = 0; i < MAXT; i++)
    h = mix64(h, d.c[i]);
  TH[me] = h;
}
static uint64_t state_hash(const char *pending_op, int kind)
{
  uint64_t h = mix64(0x1234567ull + kind, (uint64_t)me);
  h = mix64(h, vr::fnv(pending_op, strlen(pending_op)));
  for (int t = 0; t < nthreads; t++) {
    h = mix64(h, TH[t]);
    h = mix64(h, (uint64_t)T[t].st);
    // rank in the least-recently-run order (it decides the canonical choice)
    int rank = 0;
    for (int u = 0; u < nthreads; u++)
      if (T[u].lastrun < T[t].lastrun || (T[u].lastrun == T[t].lastrun && u < t))
        rank++;
    h = mix64(h, (uint64_t)rank);
  }
  return h;
}

// =========================================================================================
// scheduler
// =========================================================================================
static bool is_enabled(int t)
{
  switch (T[t].st) {
  case RUNNABLE:
    return true;
  case BLOCK_MUTEX:
    return (*mutex_owner)[T[t].waitobj] == 0;
  case BLOCK_JOIN:
    return T[T[t].jointarget].st == DONE;
  case BLOCK_SEM:
    return (*sem_val)[T[t].waitobj] > 0;
  default:
    return false;
  }
}

// a generic recorded choice among n alternatives (n >= 2)
static const char *pending_op_name = "";
static int choose(int n, int kind = 0)
{
  shash.push_back(state_hash(pending_op_name, kind));
  int idx = 0;
  size_t k = choices.size();
  if (k < prefix.size()) {
    idx = prefix[k];
    if (idx >= n) {
      char b[128];
      snprintf(b, sizeof b, "replay divergence at choice %zu: %d >= %d", k, idx, n);
      finish_execution(5, "internal:replay-divergence", b);
    }
  }
  choices.push_back((unsigned char)idx);
  nalt.push_back((unsigned char)n);
  if (tracing && steplog && steplog->size() < 200000) {
    static const char *names[3][8] = {{"choice:sched 0", "choice:sched 1", "choice:sched 2", "choice:sched 3", "choice:sched 4", "choice:sched 5", "choice:sched 6", "choice:sched 7"},
        {"choice:notify 0", "choice:notify 1", "choice:notify 2", "choice:notify 3", "choice:notify 4", "choice:notify 5", "choice:notify 6", "choice:notify 7"},
        {"choice:store commits now", "choice:store stays buffered", "?", "?", "?", "?", "?", "?"}};
    steplog->push_back(StepRec{(unsigned char)me, names[kind < 3 ? kind : 0][idx & 7], 0});
  }
  return idx;
}

static std::string thread_states()
{
  std::string s;
  for (int t = 0; t < nthreads; t++) {
    s += "T" + std::to_string(t) + ":" + st_name[T[t].st] + " ";
  }
  return s;
}

// Called by the thread holding the token, before each visible operation (op, addr) of its
// own, or after it changed its own state to blocked / yielded / done.
static void schedule(const char *op, uintptr_t addr)
{
  if (!active)
    return;
  RtGuard rtg;
  vw_flush();
  // buffered stores only stay behind while the thread performs loads: a thread that is about to
  // block, yield or exit drains its buffer now; one that is about to perform another kind of
  // operation drains it when it is actually resumed to perform it (below), so that other threads
  // can still run - and see the old values - in between
  const bool op_is_load = strcmp(op, "atomic-load") == 0 || strcmp(op, "volatile-load") == 0;
  if (!SB[me].empty() && T[me].st != RUNNABLE)
    sb_flush();
  if (++steps > max_steps) {
    std::string d = "step horizon " + std::to_string(max_steps) + " exceeded; " + thread_states();
    finish_execution(4, "no-termination|step horizon exceeded", d.c_str());
  }
  int en[MAXT], n = 0;
  bool cur_en = (T[me].st == RUNNABLE);
  if (cur_en)
    en[n++] = me;
  // the others, least recently run first
  int oth[MAXT], no = 0;
  for (int t = 0; t < nthreads; t++)
    if (t != me && is_enabled(t))
      oth[no++] = t;
  std::sort(oth, oth + no, [](int a, int b) { return T[a].lastrun != T[b].lastrun ? T[a].lastrun < T[b].lastrun : a < b; });
  for (int i = 0; i < no; i++)
    en[n++] = oth[i];
  if (n > 0 && T[me].st == YIELDED && T[me].soft)
    en[n++] = me;  // last alternative: ignore the heuristic yield
  if (n == 0) {
    // nobody but yielders / timed waiters: a yield with nothing else to run is a no-op,
    // and time only passes (timed waits expire) when nothing else can happen
    int ys[MAXT], ny = 0;
    for (int t = 0; t < nthreads; t++)
      if (T[t].st == YIELDED)
        ys[ny++] = t;
    if (ny == 0) {
      for (int t = 0; t < nthreads; t++)
        if ((T[t].st == BLOCK_COND || T[t].st == BLOCK_FUTEX || T[t].st == BLOCK_SEM) && T[t].timed) {
          T[t].timedout = true;
          T[t].st = RUNNABLE;
          ys[ny++] = t;
        }
    } else {
      if (steps - last_mod_step > livelock_window) {
        std::string d = "only busy-waiting threads can run and none of the last " + std::to_string(livelock_window) +
            " visible operations modified shared state; " + thread_states();
        finish_execution(4, "no-termination|livelock (all runnable threads spin)", d.c_str());
      }
      for (int i = 0; i < ny; i++)
        T[ys[i]].st = RUNNABLE;
    }
    if (ny == 0) {
      if (T[0].st == DONE) {
        finish_execution(0, "", "");  // only daemon threads left, all blocked
      }
      std::string d = "no enabled thread; " + thread_states();
      finish_execution(3, (std::string("deadlock|main thread ") + st_name[T[0].st]).c_str(), d.c_str());
    }
    // order: current first if among them, rest least recently run
    n = 0;
    bool has_me = false;
    for (int i = 0; i < ny; i++)
      if (ys[i] == me)
        has_me = true;
    no = 0;
    for (int i = 0; i < ny; i++)
      if (ys[i] != me)
        oth[no++] = ys[i];
    std::sort(oth, oth + no, [](int a, int b) { return T[a].lastrun != T[b].lastrun ? T[a].lastrun < T[b].lastrun : a < b; });
    // a spinner that just yielded goes last: give the others a turn first
    for (int i = 0; i < no; i++)
      en[n++] = oth[i];
    if (has_me)
      en[n++] = me;
  }
  pending_op_name = op;
  int idx = n > 1 ? choose(n) : 0;
  int nt = en[idx];
  T[nt].lastrun = steps;
  // the chosen thread takes a step: every other yielded thread becomes runnable again
  for (int t = 0; t < nthreads; t++)
    if (t != nt && T[t].st == YIELDED)
      T[t].st = RUNNABLE;
  if (nt != me) {
    give(nt);
    if (T[me].st != DONE)
      take();
  }
  // logged when the thread actually proceeds with (op, addr)
  if (T[me].st != DONE) {
    if (!SB[me].empty() && !op_is_load)
      sb_flush();
    dep_update(op, addr);
    if (steplog->size() < 200000)
      steplog->push_back(StepRec{(unsigned char)me, op, addr});
  }
}

static inline void point(const char *op, const void *addr)
{
  if (active && me >= 0 && !in_rt)
    schedule(op, (uintptr_t)addr);
}
// soft = recognised by the re-read heuristic only: the canonical schedule gives the other threads
// a turn, but carrying on with this thread stays possible (one deviation), so no behaviour is lost
// when the heuristic takes a polling loop that does real work for a busy-wait
static void spin_yield(const char *op, const void *addr, bool soft = false)
{
  if (!(active && me >= 0) || in_rt)
    return;
  nyields++;
  if (!SB[me].empty()) {
    RtGuard g;
    sb_flush();  // time passes while a thread spins: its stores become visible
  }
  T[me].st = YIELDED;
  T[me].soft = soft;
  schedule(op, (uintptr_t)addr);
  if (T[me].st == YIELDED)
    T[me].st = RUNNABLE;
  T[me].soft = false;
}
// An atomic/volatile load repeated at the same program point with no modification of shared
// state in between is a busy-wait iteration: treat it as a yield.
struct PcRec
{
  uintptr_t addr;
  unsigned long ver1;  // write version of addr at the last read here, +1
  unsigned long own;   // this thread's own modification count at that read
};
static __thread std::map<void *, PcRec> *pcmap;
static void point_read(const char *op, const void *addr, void *pc)
{
  if (!(active && me >= 0) || in_rt)
    return;
  bool spin;
  {
    RtGuard g;
    vw_flush();
    if (!pcmap)
      pcmap = new std::map<void *, PcRec>();
    unsigned long cur = 0;
    auto it = wver->find((uintptr_t)addr);
    if (it != wver->end())
      cur = it->second;
    // a busy-wait iteration: the same location re-read at the same program point, unchanged,
    // and this thread has modified nothing itself since the last time it was here
    PcRec &e = (*pcmap)[pc];
    spin = e.addr == (uintptr_t)addr && e.ver1 == cur + 1 && e.own == own_mods_any[me];
    e.addr = (uintptr_t)addr;
    e.ver1 = cur + 1;
    e.own = own_mods_any[me];
  }
  if (spin)
    spin_yield(op, addr, true);
  else
    schedule(op, (uintptr_t)addr);
}

extern "C" void rkcommon_verif_spin_hint()
{
  spin_yield("spin-hint", nullptr);
}
extern "C" void mc_yield()
{
  spin_yield("yield", nullptr);
}
extern "C" int mc_tid()
{
  return me;
}
extern "C" long mc_steps()
{
  return steps;
}
static const char *cur_scenario_name = "";
extern "C" const char *mc_scenario_name()
{
  return cur_scenario_name;
}

// =========================================================================================
// fake tsan runtime
// =========================================================================================
#define HB_LOAD_MO(a, mo)                                           \
  do {                                                              \
    if (det_on && me >= 0 && !in_rt) {                              \
      RtGuard g;                                                    \
      check_freed((uintptr_t)(a), __builtin_return_address(0));     \
      hb_load((uintptr_t)(a), (mo));                                \
    }                                                               \
  } while (0)
#define HB_STORE_MO(a, mo)                                          \
  do {                                                              \
    if (det_on && me >= 0 && !in_rt) {                              \
      RtGuard g;                                                    \
      check_freed((uintptr_t)(a), __builtin_return_address(0));     \
      hb_store((uintptr_t)(a), (mo));                               \
    }                                                               \
  } while (0)
#define HB_RMW_MO(a, mo)                                            \
  do {                                                              \
    if (det_on && me >= 0 && !in_rt) {                              \
      RtGuard g;                                                    \
      check_freed((uintptr_t)(a), __builtin_return_address(0));     \
      hb_rmw((uintptr_t)(a), (mo));                                 \
    }                                                               \
  } while (0)
// volatile accesses (enkiTS's synchronisation) are treated as sequentially consistent atomics
#define HB_LOAD(a) HB_LOAD_MO(a, 5)
#define HB_STORE(a) HB_STORE_MO(a, 5)
#define HB_RMW(a) HB_RMW_MO(a, 5)

extern "C" {
void __tsan_init() {}
void __tsan_func_entry(void *) {}
void __tsan_func_exit() {}
void __tsan_vptr_read(void **a)
{
  plain((uintptr_t)a, 8, false, __builtin_return_address(0));
}
void __tsan_vptr_update(void **a, void *)
{
  plain((uintptr_t)a, 8, true, __builtin_return_address(0));
}
#define RW(n)                                                                  \
  void __tsan_read##n(void *a)                                                 \
  {                                                                            \
    plain((uintptr_t)a, n, false, __builtin_return_address(0));                \
  }                                                                            \
  void __tsan_write##n(void *a)                                                \
  {                                                                            \
    plain((uintptr_t)a, n, true, __builtin_return_address(0));                 \
  }                                                                            \
  void __tsan_unaligned_read##n(void *a)                                       \
  {                                                                            \
    plain((uintptr_t)a, n, false, __builtin_return_address(0));                \
  }                                                                            \
  void __tsan_unaligned_write##n(void *a)                                      \
  {                                                                            \
    plain((uintptr_t)a, n, true, __builtin_return_address(0));                 \
  }                                                                            \
  void __tsan_volatile_read##n(void *a)                                        \
  {                                                                            \
    point_read("volatile-load", a, __builtin_return_address(0));               \
    if (active && me >= 0 && !in_rt && !SB[me].empty()) {                      \
      RtGuard g;                                                               \
      for (auto &e : SB[me])                                                   \
        if ((uintptr_t)a < e.addr + e.size && e.addr < (uintptr_t)a + n) {     \
          sb_flush(); /* the machine load that follows must see the thread's own store */ \
          break;                                                               \
        }                                                                      \
    }                                                                          \
    HB_LOAD(a);                                                                \
  }                                                                            \
  void __tsan_volatile_write##n(void *a)                                       \
  {                                                                            \
    point("volatile-store", a);                                                \
    if (active && me >= 0 && !in_rt) {                                         \
      vw_pending = a;                                                          \
      vw_size = n;                                                             \
      memcpy(vw_old, a, n);                                                    \
      vw_buffer = false;                                                       \
      if (tso_volatile && n <= 8 && det_on && nthreads > 1) {                  \
        RtGuard g;                                                             \
        pending_op_name = "store-buffer?";                                     \
        vw_buffer = choose(2, 2) == 1;                                         \
      }                                                                        \
    }                                                                          \
    if (!vw_buffer)                                                            \
      HB_STORE(a);                                                             \
  }                                                                            \
  void __tsan_unaligned_volatile_read##n(void *a)                              \
  {                                                                            \
    point_read("volatile-load", a, __builtin_return_address(0));               \
    HB_LOAD(a);                                                                \
  }                                                                            \
  void __tsan_unaligned_volatile_write##n(void *a)                             \
  {                                                                            \
    point("volatile-store", a);                                                \
    HB_STORE(a);                                                               \
    if (active && me >= 0 && !in_rt) {                                         \
      RtGuard mg;                                                              \
      mod_at(a);                                                               \
    }                                                                          \
  }
RW(1)
RW(2)
RW(4)
RW(8)
RW(16)
void __tsan_read_range(void *a, long n)
{
  plain((uintptr_t)a, n > 4096 ? 4096 : n, false, __builtin_return_address(0));
}
void __tsan_write_range(void *a, long n)
{
  plain((uintptr_t)a, n > 4096 ? 4096 : n, true, __builtin_return_address(0));
}
#define MODIF()                          \
  do {                                   \
    if (active && me >= 0 && !in_rt) {   \
      RtGuard mg;                        \
      mod_at((const volatile void *)a);  \
    }                                    \
  } while (0)
#define AT(bits, TY)                                                                                   \
  TY __tsan_atomic##bits##_load(const volatile TY *a, int mo)                                             \
  {                                                                                                    \
    point_read("atomic-load", (const void *)a, __builtin_return_address(0));                           \
    HB_LOAD_MO(a, mo);                                                                                        \
    if (active && me >= 0 && !in_rt && !SB[me].empty()) {                                              \
      RtGuard g;                                                                                       \
      uint64_t fv;                                                                                     \
      if (sb_forward((uintptr_t)a, (int)sizeof(TY), &fv))                                              \
        return (TY)fv;                                                                                 \
    }                                                                                                  \
    return __atomic_load_n(a, __ATOMIC_SEQ_CST);                                                       \
  }                                                                                                    \
  void __tsan_atomic##bits##_store(volatile TY *a, TY v, int mo)                                          \
  {                                                                                                    \
    point("atomic-store", (const void *)a);                                                            \
    if (tso_on && mo != 5 && active && me >= 0 && !in_rt && det_on && nthreads > 1) {                 \
      RtGuard g;                                                                                       \
      pending_op_name = "store-buffer?";                                                               \
      if (choose(2, 2) == 1) {                                                                         \
        check_freed((uintptr_t)a, __builtin_return_address(0));                                        \
        SbEntry e;                                                                                     \
        e.addr = (uintptr_t)a;                                                                         \
        e.size = (int)sizeof(TY);                                                                      \
        e.val = (uint64_t)v;                                                                           \
        e.pub = mo_rel(mo) ? Cth[me] : (HasRelFence[me] ? RelFence[me] : VC());                        \
        Cth[me].c[me]++;                                                                               \
        own_mods_any[me]++; /* the thread did something: a following load is not a spin */            \
        TH[me] = mix64(TH[me], 0x6275666665726564ull); /* state hash: this store is still buffered */ \
        SB[me].push_back(e);                                                                           \
        return;                                                                                        \
      }                                                                                                \
    }                                                                                                  \
    MODIF();                                                                                           \
    HB_STORE_MO(a, mo);                                                                                       \
    __atomic_store_n(a, v, __ATOMIC_SEQ_CST);                                                          \
  }                                                                                                    \
  TY __tsan_atomic##bits##_exchange(volatile TY *a, TY v, int mo)                                         \
  {                                                                                                    \
    point("atomic-exchange", (const void *)a);                                                         \
    MODIF();                                                                                           \
    HB_RMW_MO(a, mo);                                                                                  \
    return __atomic_exchange_n(a, v, __ATOMIC_SEQ_CST);                                                \
  }                                                                                                    \
  TY __tsan_atomic##bits##_fetch_add(volatile TY *a, TY v, int mo)                                        \
  {                                                                                                    \
    point("atomic-fetch_add", (const void *)a);                                                        \
    MODIF();                                                                                           \
    HB_RMW_MO(a, mo);                                                                                  \
    return __atomic_fetch_add(a, v, __ATOMIC_SEQ_CST);                                                 \
  }                                                                                                    \
  TY __tsan_atomic##bits##_fetch_sub(volatile TY *a, TY v, int mo)                                        \
  {                                                                                                    \
    point("atomic-fetch_sub", (const void *)a);                                                        \
    MODIF();                                                                                           \
    HB_RMW_MO(a, mo);                                                                                  \
    return __atomic_fetch_sub(a, v, __ATOMIC_SEQ_CST);                                                 \
  }                                                                                                    \
  TY __tsan_atomic##bits##_fetch_and(volatile TY *a, TY v, int mo)                                        \
  {                                                                                                    \
    point("atomic-fetch_and", (const void *)a);                                                        \
    MODIF();                                                                                           \
    HB_RMW_MO(a, mo);                                                                                  \
    return __atomic_fetch_and(a, v, __ATOMIC_SEQ_CST);                                                 \
  }                                                                                                    \
  TY __tsan_atomic##bits##_fetch_or(volatile TY *a, TY v, int mo)                                         \
  {                                                                                                    \
    point("atomic-fetch_or", (const void *)a);                                                         \
    MODIF();                                                                                           \
    HB_RMW_MO(a, mo);                                                                                  \
    return __atomic_fetch_or(a, v, __ATOMIC_SEQ_CST);                                                  \
  }                                                                                                    \
  TY __tsan_atomic##bits##_fetch_xor(volatile TY *a, TY v, int mo)                                        \
  {                                                                                                    \
    point("atomic-fetch_xor", (const void *)a);                                                        \
    MODIF();                                                                                           \
    HB_RMW_MO(a, mo);                                                                                  \
    return __atomic_fetch_xor(a, v, __ATOMIC_SEQ_CST);                                                 \
  }                                                                                                    \
  TY __tsan_atomic##bits##_fetch_nand(volatile TY *a, TY v, int mo)                                       \
  {                                                                                                    \
    point("atomic-fetch_nand", (const void *)a);                                                       \
    MODIF();                                                                                           \
    HB_RMW_MO(a, mo);                                                                                  \
    return __atomic_fetch_nand(a, v, __ATOMIC_SEQ_CST);                                                \
  }                                                                                                    \
  int __tsan_atomic##bits##_compare_exchange_strong(volatile TY *a, TY *c, TY v, int mo, int fmo)             \
  {                                                                                                    \
    point("atomic-cas", (const void *)a);                                                              \
    int ok = __atomic_compare_exchange_n(a, c, v, false, __ATOMIC_SEQ_CST, __ATOMIC_SEQ_CST);          \
    if (ok) {                                                                                          \
      MODIF();                                                                                         \
      HB_RMW_MO(a, mo);                                                                                \
    } else                                                                                             \
      HB_LOAD_MO(a, fmo);                                                                              \
    return ok;                                                                                         \
  }                                                                                                    \
  int __tsan_atomic##bits##_compare_exchange_weak(volatile TY *a, TY *c, TY v, int mo, int fmo)               \
  {                                                                                                    \
    point("atomic-cas", (const void *)a);                                                              \
    int ok = __atomic_compare_exchange_n(a, c, v, false, __ATOMIC_SEQ_CST, __ATOMIC_SEQ_CST);          \
    if (ok) {                                                                                          \
      MODIF();                                                                                         \
      HB_RMW_MO(a, mo);                                                                                \
    } else                                                                                             \
      HB_LOAD_MO(a, fmo);                                                                              \
    return ok;                                                                                         \
  }                                                                                                    \
  TY __tsan_atomic##bits##_compare_exchange_val(volatile TY *a, TY c, TY v, int mo, int fmo)                  \
  {                                                                                                    \
    point("atomic-cas", (const void *)a);                                                              \
    if (__atomic_compare_exchange_n(a, &c, v, false, __ATOMIC_SEQ_CST, __ATOMIC_SEQ_CST)) {            \
      MODIF();                                                                                         \
      HB_RMW_MO(a, mo);                                                                                \
    } else                                                                                             \
      HB_LOAD_MO(a, fmo);                                                                              \
    return c;                                                                                          \
  }
AT(8, uint8_t)
AT(16, uint16_t)
AT(32, uint32_t)
AT(64, uint64_t)
void __tsan_atomic_thread_fence(int mo)
{
  if (mo == 5)
    point("fence", nullptr);  // a seq_cst fence is a visible operation and drains the store buffer
  if (det_on && me >= 0 && !in_rt) {
    RtGuard g;
    hb_fence(mo);
  }
}
void __tsan_atomic_signal_fence(int) {}

// =========================================================================================
// pthread interposition
// =========================================================================================
static void *tramp(void *p)
{
  me = (int)(intptr_t)p;
  take();
  {
    pthread_attr_t at;
    if (pthread_getattr_np(pthread_self(), &at) == 0) {
      void *sa;
      size_t ss;
      pthread_attr_getstack(&at, &sa, &ss);
      pthread_attr_destroy(&at);
      RtGuard g;
      clear_shadow((uintptr_t)sa, ss);
    }
  }
  void *r = T[me].fn(T[me].arg);
  if (!SB[me].empty())
    point("thread-end", nullptr);  // other threads may still run before the exiting thread's buffered stores drain
  if (det_on) {
    RtGuard g;
    Cth[me].c[me]++;
  }
  T[me].st = DONE;
  schedule("thread-exit", 0);
  me = -1;  // anything this OS thread does from now on (TLS destructors) is invisible
  return r;
}
int pthread_create(pthread_t *t, const pthread_attr_t *a, void *(*f)(void *), void *arg)
{
  static auto real = next_sym<int (*)(pthread_t *, const pthread_attr_t *, void *(*)(void *), void *)>("pthread_create");
  if (!active || me < 0 || in_rt)
    return real(t, a, f, arg);
  point("thread-create", nullptr);
  RtGuard rg;
  if (nthreads >= MAXT)
    finish_execution(5, "internal:too-many-threads", "more than MAXT modelled threads");
  int id = nthreads++;
  T[id].st = RUNNABLE;
  T[id].turn = 0;
  T[id].fn = f;
  T[id].arg = arg;
  T[id].lastrun = 0;
  T[id].detached = false;
  if (det_on) {
    RtGuard g;
    Cth[id].join(Cth[me]);
    Cth[me].c[me]++;
  }
  DC[id] = DC[me];
  TH[id] = mix64(TH[me], 0x7468726561640000ull + (uint64_t)id);
  int rc;
  {
    RtGuard g;
    rc = real(t, a, tramp, (void *)(intptr_t)id);
  }
  T[id].real = *t;
  mod();
  return rc;
}
static int tid_of(pthread_t p)
{
  for (int i = 0; i < nthreads; i++)
    if (pthread_equal(T[i].real, p))
      return i;
  return -1;
}
int pthread_join(pthread_t t, void **r)
{
  static auto real = next_sym<int (*)(pthread_t, void **)>("pthread_join");
  if (!active || me < 0 || in_rt)
    return real(t, r);
  if (tid_of(t) >= 0 && T[tid_of(t)].st == DONE)
    point("thread-join", nullptr);
  RtGuard rg;
  int id = tid_of(t);
  if (id >= 0 && T[id].st != DONE) {
    T[me].st = BLOCK_JOIN;
    T[me].jointarget = id;
    schedule("thread-join", 0);
    T[me].st = RUNNABLE;
  }
  if (det_on && id >= 0) {
    RtGuard g;
    Cth[me].join(Cth[id]);
  }
  if (id >= 0) {
    DC[me].join(DC[id]);
    TH[me] = mix64(TH[me], TH[id]);
  }
  mod();
  RtGuard g;
  return real(t, r);
}
int pthread_detach(pthread_t t)
{
  static auto real = next_sym<int (*)(pthread_t)>("pthread_detach");
  return real(t);
}
int pthread_cancel(pthread_t)
{
  return 0;
}
static void lock_model(pthread_mutex_t *m)
{
  while ((*mutex_owner)[m] != 0) {
    T[me].st = BLOCK_MUTEX;
    T[me].waitobj = m;
    schedule("mutex-blocked", (uintptr_t)m);
    T[me].st = RUNNABLE;
  }
  (*mutex_owner)[m] = me + 1;
  mod();
  if (det_on) {
    RtGuard g;
    acq((uintptr_t)m);
  }
}
int pthread_mutex_lock(pthread_mutex_t *m)
{
  static auto real = next_sym<int (*)(pthread_mutex_t *)>("pthread_mutex_lock");
  if (!active || me < 0 || in_rt)
    return real(m);
  point("mutex-lock", m);
  RtGuard rg;
  lock_model(m);
  return 0;
}
int pthread_mutex_trylock(pthread_mutex_t *m)
{
  static auto real = next_sym<int (*)(pthread_mutex_t *)>("pthread_mutex_trylock");
  if (!active || me < 0 || in_rt)
    return real(m);
  point("mutex-trylock", m);
  RtGuard rg;
  if ((*mutex_owner)[m] != 0)
    return EBUSY;
  lock_model(m);
  return 0;
}
int pthread_mutex_unlock(pthread_mutex_t *m)
{
  static auto real = next_sym<int (*)(pthread_mutex_t *)>("pthread_mutex_unlock");
  if (!active || me < 0 || in_rt)
    return real(m);
  point("mutex-unlock", m);
  RtGuard rg;
  if (det_on) {
    RtGuard g;
    rel_set((uintptr_t)m);
  }
  (*mutex_owner)[m] = 0;
  mod();
  return 0;
}
static int cond_wait_model(pthread_cond_t *c, pthread_mutex_t *m, bool timed)
{
  point("cond-wait", c);
  RtGuard rg;
  if (det_on) {
    RtGuard g;
    rel_set((uintptr_t)m);
  }
  (*mutex_owner)[m] = 0;
  mod();
  T[me].st = BLOCK_COND;
  T[me].waitobj = c;
  T[me].timed = timed;
  T[me].timedout = false;
  schedule("cond-blocked", (uintptr_t)c);
  bool to = T[me].timedout;
  T[me].timed = false;
  T[me].timedout = false;
  lock_model(m);
  return to ? ETIMEDOUT : 0;
}
int pthread_cond_wait(pthread_cond_t *c, pthread_mutex_t *m)
{
  static auto real = next_sym<int (*)(pthread_cond_t *, pthread_mutex_t *)>("pthread_cond_wait");
  if (!active || me < 0 || in_rt)
    return real(c, m);
  return cond_wait_model(c, m, false);
}
int pthread_cond_timedwait(pthread_cond_t *c, pthread_mutex_t *m, const struct timespec *ts)
{
  static auto real = next_sym<int (*)(pthread_cond_t *, pthread_mutex_t *, const struct timespec *)>("pthread_cond_timedwait");
  if (!active || me < 0 || in_rt)
    return real(c, m, ts);
  return cond_wait_model(c, m, true);
}
int pthread_cond_clockwait(pthread_cond_t *c, pthread_mutex_t *m, clockid_t ck, const struct timespec *ts)
{
  static auto real = next_sym<int (*)(pthread_cond_t *, pthread_mutex_t *, clockid_t, const struct timespec *)>("pthread_cond_clockwait");
  if (!active || me < 0 || in_rt)
    return real(c, m, ck, ts);
  return cond_wait_model(c, m, true);
}
static void cond_wake(pthread_cond_t *c, bool all)
{
  int ws[MAXT], nw = 0;
  for (int t = 0; t < nthreads; t++)
    if (T[t].st == BLOCK_COND && T[t].waitobj == c)
      ws[nw++] = t;
  if (nw == 0)
    return;
  mod();
  if (all) {
    for (int i = 0; i < nw; i++)
      T[ws[i]].st = RUNNABLE;
    return;
  }
  pending_op_name = "notify-one";
  int idx = nw > 1 ? choose(nw, 1) : 0;  // which waiter a notify_one wakes is a choice
  T[ws[idx]].st = RUNNABLE;
}
int pthread_cond_signal(pthread_cond_t *c)
{
  static auto real = next_sym<int (*)(pthread_cond_t *)>("pthread_cond_signal");
  if (!active || me < 0 || in_rt)
    return real(c);
  point("cond-signal", c);
  RtGuard g;
  cond_wake(c, false);
  return 0;
}
int pthread_cond_broadcast(pthread_cond_t *c)
{
  static auto real = next_sym<int (*)(pthread_cond_t *)>("pthread_cond_broadcast");
  if (!active || me < 0 || in_rt)
    return real(c);
  point("cond-broadcast", c);
  RtGuard g;
  cond_wake(c, true);
  return 0;
}
int sem_init(sem_t *s, int sh, unsigned v)
{
  static auto real = next_sym<int (*)(sem_t *, int, unsigned)>("sem_init");
  if (!active || me < 0 || in_rt)
    return real(s, sh, v);
  RtGuard g;
  (*sem_val)[s] = (int)v;
  return 0;
}
int sem_destroy(sem_t *s)
{
  static auto real = next_sym<int (*)(sem_t *)>("sem_destroy");
  if (!active || me < 0 || in_rt)
    return real(s);
  RtGuard g;
  sem_val->erase(s);
  return 0;
}
int sem_post(sem_t *s)
{
  static auto real = next_sym<int (*)(sem_t *)>("sem_post");
  if (!active || me < 0 || in_rt)
    return real(s);
  point("sem-post", s);
  RtGuard g;
  if (det_on)
    rel_join((uintptr_t)s);
  (*sem_val)[s]++;
  mod();
  return 0;
}
int sem_wait(sem_t *s)
{
  static auto real = next_sym<int (*)(sem_t *)>("sem_wait");
  if (!active || me < 0 || in_rt)
    return real(s);
  point("sem-wait", s);
  RtGuard rg;
  while ((*sem_val)[s] <= 0) {
    T[me].st = BLOCK_SEM;
    T[me].waitobj = s;
    T[me].timed = false;
    schedule("sem-blocked", (uintptr_t)s);
    T[me].st = RUNNABLE;
  }
  RtGuard g;
  (*sem_val)[s]--;
  mod();
  if (det_on)
    acq((uintptr_t)s);
  return 0;
}
int sem_trywait(sem_t *s)
{
  static auto real = next_sym<int (*)(sem_t *)>("sem_trywait");
  if (!active || me < 0 || in_rt)
    return real(s);
  point("sem-trywait", s);
  RtGuard g;
  if ((*sem_val)[s] <= 0) {
    errno = EAGAIN;
    return -1;
  }
  (*sem_val)[s]--;
  mod();
  if (det_on)
    acq((uintptr_t)s);
  return 0;
}
int sched_yield()
{
  static auto real = next_sym<int (*)()>("sched_yield");
  if (!active || me < 0 || in_rt)
    return real();
  spin_yield("sched_yield", nullptr);
  return 0;
}
int nanosleep(const struct timespec *req, struct timespec *rem)
{
  static auto real = next_sym<int (*)(const struct timespec *, struct timespec *)>("nanosleep");
  if (!active || me < 0 || in_rt)
    return real(req, rem);
  logical_clock_ns += req ? req->tv_sec * 1000000000L + req->tv_nsec : 0;
  spin_yield("nanosleep", nullptr);
  return 0;
}
int clock_nanosleep(clockid_t ck, int flags, const struct timespec *req, struct timespec *rem)
{
  static auto real = next_sym<int (*)(clockid_t, int, const struct timespec *, struct timespec *)>("clock_nanosleep");
  if (!active || me < 0 || in_rt)
    return real(ck, flags, req, rem);
  spin_yield("nanosleep", nullptr);
  return 0;
}
int usleep(useconds_t us)
{
  static auto real = next_sym<int (*)(useconds_t)>("usleep");
  if (!active || me < 0 || in_rt)
    return real(us);
  logical_clock_ns += (long)us * 1000L;
  spin_yield("usleep", nullptr);
  return 0;
}
// deterministic logical clock inside an execution
int clock_gettime(clockid_t ck, struct timespec *ts)
{
  if (!active || me < 0 || in_rt)
    return (int)syscall(SYS_clock_gettime, ck, ts);
  logical_clock_ns += 1000;
  ts->tv_sec = logical_clock_ns / 1000000000L;
  ts->tv_nsec = logical_clock_ns % 1000000000L;
  return 0;
}
int getrusage(int who, struct rusage *ru)
{
  if (!active || me < 0 || in_rt)
    return (int)syscall(SYS_getrusage, who, ru);
  memset(ru, 0, sizeof *ru);
  ru->ru_utime.tv_sec = logical_clock_ns / 2000000000L;
  ru->ru_utime.tv_usec = (logical_clock_ns / 2000) % 1000000L;
  return 0;
}
}  // extern "C"

// =========================================================================================
// allocation: quarantine instead of free (lifetime oracle)
// =========================================================================================
static void *mc_alloc(size_t n)
{
  void *p = malloc(n ? n : 1);
  if (det_on && me >= 0 && !in_rt) {
    RtGuard g;
    clear_shadow((uintptr_t)p, malloc_usable_size(p));
  }
  return p;
}
static void mc_free(void *p, void *pc)
{
  if (!p)
    return;
  if (det_on && me >= 0 && !in_rt) {
    // the freeing thread's own buffered stores precede the free in program order and a store buffer is
    // FIFO (the allocator's own stores and locked operations come after them): they commit first
    if (active && (vw_pending || !SB[me].empty())) {
      RtGuard g;  // the bookkeeping allocates: its own new/delete must not come back here
      vw_flush();
      sb_flush();
    }
    size_t n = malloc_usable_size(p);
    {
      RtGuard g;
      if (quarantine->count((uintptr_t)p))
        report2("double-free", (uintptr_t)p, pc, (*freed_by)[(uintptr_t)p]);
    }
    // a free is a write to the block
    plain((uintptr_t)p, n > 2048 ? 2048 : (long)n, true, pc);
    RtGuard g;
    clear_shadow((uintptr_t)p, n);
    (*quarantine)[(uintptr_t)p] = n;
    (*freed_by)[(uintptr_t)p] = pc;
    return;
  }
  if (!det_on)
    free(p);
  // runtime-internal frees while the detector is on are leaked on purpose (the child exits soon)
}
void *operator new(size_t n)
{
  return mc_alloc(n);
}
void *operator new[](size_t n)
{
  return mc_alloc(n);
}
void *operator new(size_t n, const std::nothrow_t &) noexcept
{
  return mc_alloc(n);
}
void *operator new[](size_t n, const std::nothrow_t &) noexcept
{
  return mc_alloc(n);
}
void operator delete(void *p) noexcept
{
  mc_free(p, __builtin_return_address(0));
}
void operator delete[](void *p) noexcept
{
  mc_free(p, __builtin_return_address(0));
}
void operator delete(void *p, size_t) noexcept
{
  mc_free(p, __builtin_return_address(0));
}
void operator delete[](void *p, size_t) noexcept
{
  mc_free(p, __builtin_return_address(0));
}

// =========================================================================================
// std::future's futex (the only place future::get()/wait() blocks)
// =========================================================================================
namespace std {
struct __atomic_futex_unsigned_base
{
  bool _M_futex_wait_until(unsigned *addr, unsigned val, bool has_timeout, chrono::seconds s, chrono::nanoseconds ns);
  bool _M_futex_wait_until_steady(unsigned *addr, unsigned val, bool has_timeout, chrono::seconds s, chrono::nanoseconds ns);
  static void _M_futex_notify_all(unsigned *addr);
};
}  // namespace std
bool std::__atomic_futex_unsigned_base::_M_futex_wait_until(unsigned *addr, unsigned val, bool has_timeout, chrono::seconds, chrono::nanoseconds)
{
  if (!active || me < 0 || in_rt) {
    while (__atomic_load_n(addr, __ATOMIC_SEQ_CST) == val)
      syscall(SYS_futex, addr, FUTEX_WAIT, val, 0, 0, 0);
    return true;
  }
  point("futex-wait", addr);
  RtGuard rg;
  while (__atomic_load_n(addr, __ATOMIC_SEQ_CST) == val) {
    T[me].st = BLOCK_FUTEX;
    T[me].waitobj = addr;
    T[me].timed = has_timeout;
    T[me].timedout = false;
    schedule("futex-blocked", (uintptr_t)addr);
    bool to = T[me].timedout;
    T[me].timed = T[me].timedout = false;
    T[me].st = RUNNABLE;
    if (to)
      return false;
  }
  if (det_on) {
    RtGuard g;
    acq((uintptr_t)addr);
  }
  return true;
}
bool std::__atomic_futex_unsigned_base::_M_futex_wait_until_steady(unsigned *addr, unsigned val, bool b, chrono::seconds s, chrono::nanoseconds ns)
{
  return _M_futex_wait_until(addr, val, b, s, ns);
}
void std::__atomic_futex_unsigned_base::_M_futex_notify_all(unsigned *addr)
{
  if (!active || me < 0 || in_rt) {
    syscall(SYS_futex, addr, FUTEX_WAKE, 0x7fffffff, 0, 0, 0);
    return;
  }
  point("futex-notify", addr);
  RtGuard rg;
  mod();
  if (det_on) {
    RtGuard g;
    rel_join((uintptr_t)addr);
  }
  for (int t = 0; t < nthreads; t++)
    if (T[t].st == BLOCK_FUTEX && T[t].waitobj == addr)
      T[t].st = RUNNABLE;
}

// =========================================================================================
// end of one execution: the child writes its result and exits
// =========================================================================================
extern "C" void mc_event(const char *s)
{
  if (!events)
    return;
  RtGuard g;
  if (events->size() < 6000) {
    *events += s;
    *events += ' ';
  }
}
static void put_list(std::string &o, const char *k, const std::vector<unsigned char> &v)
{
  o += k;
  o += '=';
  char b[8];
  for (unsigned char c : v) {
    snprintf(b, sizeof b, "%d,", (int)c);
    o += b;
  }
  o += '\n';
}
static void finish_execution(int code, const char *sig, const char *detail)
{
  in_rt++;
  active = false;
  std::string o;
  o += "code=" + std::to_string(code) + "\n";
  o += std::string("sig=") + sig + "\n";
  o += std::string("detail=") + vr::clean(detail) + "\n";
  put_list(o, "choices", choices);
  put_list(o, "nalt", nalt);
  {
    o += "hashes=";
    char hb[24];
    for (uint64_t h : shash) {
      snprintf(hb, sizeof hb, "%llx,", (unsigned long long)h);
      o += hb;
    }
    o += "\n";
  }
  o += "events=" + vr::clean(events ? *events : "") + "\n";
  o += "steps=" + std::to_string(steps) + "\n";
  o += "yields=" + std::to_string(nyields) + "\n";
  o += "threads=" + std::to_string(nthreads) + "\n";
  if (tracing && steplog) {
    std::map<uintptr_t, int> label;
    o += "trace=";
    char b[160];
    for (auto &r : *steplog) {
      int l = 0;
      if (r.addr) {
        auto it = label.find(r.addr);
        if (it == label.end())
          it = label.insert(std::make_pair(r.addr, (int)label.size() + 1)).first;
        l = it->second;
      }
      snprintf(b, sizeof b, "T%d:%s%s%s;", r.tid, r.op, l ? "#" : "", l ? std::to_string(l).c_str() : "");
      o += b;
    }
    o += "\n";
  }
  size_t off = 0;
  while (off < o.size()) {
    ssize_t w = write(out_fd, o.data() + off, o.size() - off);
    if (w <= 0)
      break;
    off += w;
  }
  _exit(code);
}
extern "C" void mc_fail(const char *sig, const char *detail)
{
  finish_execution(2, sig, detail);
}

static void crash_handler(int signo)
{
  char b[64];
  snprintf(b, sizeof b, "crash|signal %d (%s)", signo, strsignal(signo));
  // the detail carries the return addresses (resolved with addr2line by whoever reads the replay)
  char d[640];
  int len = snprintf(d, sizeof d, "%s; thread %d; backtrace", b, me);
  void *bt[20];
  int n = backtrace(bt, 20);
  for (int i = 0; i < n && len < (int)sizeof d - 20; i++)
    len += snprintf(d + len, sizeof d - len, " %p", bt[i]);
  finish_execution(6, b, d);
}

// =========================================================================================
// explorer (parent side)
// =========================================================================================
struct Res
{
  std::vector<uint64_t> hashes;
  int code = -1;
  std::string sig, detail, events, trace;
  std::vector<unsigned char> choices, nalt;
  long steps = 0, yields = 0, threads = 0;
};

static std::vector<unsigned char> parse_list(const std::string &s)
{
  std::vector<unsigned char> v;
  size_t p = 0;
  while (p < s.size()) {
    size_t q = s.find(',', p);
    if (q == std::string::npos)
      break;
    v.push_back((unsigned char)atoi(s.c_str() + p));
    p = q + 1;
  }
  return v;
}
static std::string get_field(const std::string &buf, const char *k)
{
  std::string key = std::string(k) + "=";
  size_t p = 0;
  while (true) {
    p = buf.find(key, p);
    if (p == std::string::npos)
      return "";
    if (p == 0 || buf[p - 1] == '\n')
      break;
    p++;
  }
  p += key.size();
  size_t q = buf.find('\n', p);
  return buf.substr(p, q == std::string::npos ? std::string::npos : q - p);
}
static Res parse_res(const std::string &buf, int status)
{
  Res r;
  if (buf.empty()) {
    r.code = 100;
    char b[96];
    if (WIFSIGNALED(status))
      snprintf(b, sizeof b, "crash|child killed by signal %d without a report", WTERMSIG(status));
    else
      snprintf(b, sizeof b, "crash|child exited with status %d without a report", WEXITSTATUS(status));
    r.sig = r.detail = b;
    return r;
  }
  r.code = atoi(get_field(buf, "code").c_str());
  r.sig = get_field(buf, "sig");
  r.detail = get_field(buf, "detail");
  r.choices = parse_list(get_field(buf, "choices"));
  r.nalt = parse_list(get_field(buf, "nalt"));
  {
    std::string hs = get_field(buf, "hashes");
    size_t p0 = 0;
    while (p0 < hs.size()) {
      size_t q = hs.find(',', p0);
      if (q == std::string::npos)
        break;
      r.hashes.push_back(strtoull(hs.c_str() + p0, nullptr, 16));
      p0 = q + 1;
    }
  }
  r.events = get_field(buf, "events");
  r.steps = atol(get_field(buf, "steps").c_str());
  r.yields = atol(get_field(buf, "yields").c_str());
  r.threads = atol(get_field(buf, "threads").c_str());
  r.trace = get_field(buf, "trace");
  return r;
}

static int exec_timeout_s = 60;

// run one execution of scenario sc with the given choice prefix in a forked child
static std::string run_child(McScenario *sc, const std::vector<unsigned char> &pre, bool trace, int *status_out)
{
  int fds[2];
  if (pipe(fds) != 0) {
    perror("pipe");
    exit(3);
  }
  pid_t pid = fork();
  if (pid == 0) {
    close(fds[0]);
    out_fd = fds[1];
    int dn = open("/dev/null", O_WRONLY);
    if (dn >= 0) {
      dup2(dn, 1);
      if (!trace)
        dup2(dn, 2);
    }
    prefix = pre;
    tracing = trace;
    max_steps = sc->max_steps;
    cur_scenario_name = sc->name;
    mutex_owner = new std::map<void *, int>();
    wver = new std::unordered_map<uintptr_t, unsigned long>();
    depobj = new std::unordered_map<uintptr_t, VC>();
    sem_val = new std::map<void *, int>();
    steplog = new std::vector<StepRec>();
    events = new std::string();
    signal(SIGSEGV, crash_handler);
    signal(SIGBUS, crash_handler);
    signal(SIGFPE, crash_handler);
    signal(SIGABRT, crash_handler);
    signal(SIGILL, crash_handler);
    alarm(exec_timeout_s);
    me = 0;
    nthreads = 1;
    T[0].st = RUNNABLE;
    det_init();
    active = true;
    sc->fn();
    T[0].st = DONE;
    finish_execution(0, "", "");
  }
  close(fds[1]);
  std::string buf;
  char tmp[65536];
  ssize_t n;
  while ((n = read(fds[0], tmp, sizeof tmp)) > 0)
    buf.append(tmp, n);
  close(fds[0]);
  int status = 0;
  waitpid(pid, &status, 0);
  if (status_out)
    *status_out = status;
  return buf;
}

// worker process: serve "run this prefix" requests
static void worker_loop(int fd, std::vector<McScenario *> &scs)
{
  while (true) {
    int hdr[3];
    ssize_t n = read(fd, hdr, sizeof hdr);
    if (n != (ssize_t)sizeof hdr)
      _exit(0);
    std::vector<unsigned char> pre(hdr[2]);
    size_t off = 0;
    while (off < pre.size()) {
      ssize_t k = read(fd, pre.data() + off, pre.size() - off);
      if (k <= 0)
        _exit(0);
      off += k;
    }
    int status = 0;
    std::string out = run_child(scs[hdr[0]], pre, hdr[1] != 0, &status);
    int oh[2] = {(int)out.size(), status};
    (void)!write(fd, oh, sizeof oh);
    off = 0;
    while (off < out.size()) {
      ssize_t k = write(fd, out.data() + off, out.size() - off);
      if (k <= 0)
        _exit(0);
      off += k;
    }
  }
}

struct Worker
{
  int fd;
  pid_t pid;
  bool busy;
  std::vector<unsigned char> pre;
};
static std::vector<Worker> workers;

static void send_req(Worker &w, int scen, bool trace, const std::vector<unsigned char> &pre)
{
  int hdr[3] = {scen, trace ? 1 : 0, (int)pre.size()};
  (void)!write(w.fd, hdr, sizeof hdr);
  size_t off = 0;
  while (off < pre.size()) {
    ssize_t k = write(w.fd, pre.data() + off, pre.size() - off);
    if (k <= 0) {
      perror("write to worker");
      exit(3);
    }
    off += k;
  }
  w.busy = true;
  w.pre = pre;
}
static Res recv_res(Worker &w)
{
  int oh[2];
  size_t off = 0;
  while (off < sizeof oh) {
    ssize_t k = read(w.fd, (char *)oh + off, sizeof oh - off);
    if (k <= 0) {
      fprintf(stderr, "worker died\n");
      exit(3);
    }
    off += k;
  }
  std::string buf(oh[0], '\0');
  off = 0;
  while (off < buf.size()) {
    ssize_t k = read(w.fd, &buf[off], buf.size() - off);
    if (k <= 0) {
      fprintf(stderr, "worker died\n");
      exit(3);
    }
    off += k;
  }
  w.busy = false;
  return parse_res(buf, oh[1]);
}

static std::string symbolize(const std::string &sig)
{
  // replace {pc:0x...} by the function containing it (addr2line on our own executable)
  std::string out;
  size_t p = 0;
  static std::map<std::string, std::string> cache;
  while (true) {
    size_t q = sig.find("{pc:", p);
    if (q == std::string::npos) {
      out += sig.substr(p);
      break;
    }
    out += sig.substr(p, q - p);
    size_t e = sig.find('}', q);
    std::string pc = sig.substr(q + 4, e - q - 4);
    if (!cache.count(pc)) {
      std::string fn = "?";
      unsigned long v = strtoul(pc.c_str(), nullptr, 16);
      if (v > 1) {
        char cmd[256];
        snprintf(cmd, sizeof cmd, "addr2line -f -C -e /proc/%d/exe 0x%lx 2>/dev/null", (int)getpid(), v - 1);
        FILE *f = popen(cmd, "r");
        if (f) {
          char line[2048];
          if (fgets(line, sizeof line, f)) {
            fn = line;
            while (!fn.empty() && (fn.back() == '\n' || fn.back() == ' '))
              fn.pop_back();
          }
          std::string loc;
          if (fgets(line, sizeof line, f)) {
            loc = line;
            while (!loc.empty() && (loc.back() == '\n'))
              loc.pop_back();
            size_t sl = loc.rfind('/');
            if (sl != std::string::npos)
              loc = loc.substr(sl + 1);
            size_t sp = loc.find(' ');
            if (sp != std::string::npos)
              loc = loc.substr(0, sp);
          }
          pclose(f);
          // drop template/argument noise, keep it short and stable
          size_t par = fn.find('(');
          if (par != std::string::npos && fn.compare(0, 1, "(") != 0)
            fn = fn.substr(0, par);
          if (fn.size() > 110)
            fn = fn.substr(0, 110);
          if (!loc.empty()) {
            size_t colon = loc.find(':');
            fn += "@" + (colon == std::string::npos ? loc : loc.substr(0, colon));
          }
        }
      } else
        fn = "-";
      cache[pc] = fn;
    }
    out += cache[pc];
    p = e + 1;
  }
  return out;
}

static std::string enc_choices(const std::vector<unsigned char> &c)
{
  // strip trailing zeros: beyond the prefix every choice defaults to 0
  size_t n = c.size();
  while (n > 0 && c[n - 1] == 0)
    n--;
  std::string s;
  for (size_t i = 0; i < n; i++)
    s += std::to_string((int)c[i]) + (i + 1 < n ? "," : "");
  return s;
}

struct ScenState
{
  McScenario *sc;
  int index;
  int bound;
  std::vector<std::vector<unsigned char>> frontier;  // prefixes whose deviation count == level
  int level = 0;
  bool stopped = false;
  long executions = 0, steps = 0, failing = 0, maxsteps = 0, maxthreads = 0, points = 0;
  int completed_bound = -1;
  std::set<uint64_t> outcomes;
  std::map<std::string, int> confirmed;
  std::unordered_set<uint64_t> seen_states;  // happens-before states already expanded (at this or a lower deviation level)
  long pruned = 0;
};

static long total_exec = 0;
static bool use_state_cache = true;

// process one level (all executions with exactly `level` deviations) of one scenario
static void run_level(ScenState &S)
{
  std::vector<std::vector<unsigned char>> next;
  size_t pos = 0;
  size_t inflight = 0;
  bool aborted = false;
  const size_t FRONTIER_CAP = 6000000;
  auto handle = [&](const std::vector<unsigned char> &pre, Res &r) {
    S.executions++;
    total_exec++;
    S.steps += r.steps;
    S.points += (long)r.choices.size();
    if (r.steps > S.maxsteps)
      S.maxsteps = r.steps;
    if (r.threads > S.maxthreads)
      S.maxthreads = r.threads;
    S.outcomes.insert(vr::fnv(std::to_string(r.code) + ":" + r.events));
    vr::outcome(std::string(S.sc->name) + ":" + std::to_string(r.code) + ":" + r.events);
    if (S.executions <= 3 || (S.level > 0 && S.executions % 5000 == 1))
      vr::sample(std::string(S.sc->name) + " deviations=" + std::to_string(S.level) + " choices=[" + enc_choices(r.choices) + "] steps=" +
              std::to_string(r.steps) + " -> " + (r.code ? r.sig : "ok") + " events: " + r.events.substr(0, 200),
          std::string(S.sc->name) + std::to_string(S.level) + (S.executions <= 3 ? "a" : "b") + std::to_string(S.executions % 3));
    if (r.code != 0 && r.sig.compare(0, 9, "internal:") == 0) {
      printf("@INTERNAL %s in %s: %s [choices %s]\n", r.sig.c_str(), S.sc->name, r.detail.c_str(), enc_choices(r.choices).c_str());
    } else if (r.code != 0) {
      S.failing++;
      std::string sig = std::string(S.sc->name) + "|" + symbolize(r.sig);
      int &cf = S.confirmed[sig];
      if (cf < 2) {
        // replay twice: the same schedule must fail the same way every time
        bool same = true;
        for (int k = 0; k < 2 && same; k++) {
          int st = 0;
          Res r2 = parse_res(run_child(S.sc, r.choices, false, &st), st);
          same = r2.code == r.code && r2.sig == r.sig && r2.events == r.events && r2.choices == r.choices;
          if (!same)
            fprintf(stderr, "replay mismatch: code %d/%d sig [%s]/[%s] events [%s]/[%s] choices [%s]/[%s] detail [%s]/[%s]\n", r.code, r2.code, r.sig.c_str(), r2.sig.c_str(),
                r.events.c_str(), r2.events.c_str(), enc_choices(r.choices).c_str(), enc_choices(r2.choices).c_str(), r.detail.c_str(), r2.detail.c_str());
        }
        if (!same) {
          printf("@INTERNAL nondeterministic replay of a failing schedule in %s: %s\n", S.sc->name, sig.c_str());
        } else {
          cf++;
          vr::violation(sig, std::string(S.sc->name) + ";" + enc_choices(r.choices),
              r.detail + " [deviations=" + std::to_string(S.level) + ", steps=" + std::to_string(r.steps) + ", events: " + r.events.substr(0, 300) + "]");
        }
      } else {
        vr::violation(sig, std::string(S.sc->name) + ";" + enc_choices(r.choices), r.detail);
      }
    }
    // schedules branching off a failing execution are only explored while few executions of
    // the scenario have failed: once a defect fails (nearly) every schedule its sub-trees add
    // nothing but cost
    if (S.level < S.bound && r.code != 5 && (r.code == 0 || S.failing <= 40)) {
      for (size_t i = pre.size(); i < r.choices.size(); i++) {
        // state caching: if the happens-before state in front of this choice point has been
        // expanded before (by an execution with the same or fewer deviations, which therefore
        // had at least the same remaining budget and continued canonically from it exactly as
        // this execution does), everything reachable from here is already scheduled
        if (use_state_cache && i < r.hashes.size() && !S.seen_states.insert(r.hashes[i]).second) {
          S.pruned++;
          break;
        }
        for (int alt = 1; alt < (int)r.nalt[i]; alt++) {
          if (next.size() >= FRONTIER_CAP) {
            aborted = true;
            break;
          }
          std::vector<unsigned char> p(r.choices.begin(), r.choices.begin() + i);
          p.push_back((unsigned char)alt);
          next.push_back(std::move(p));
        }
      }
    }
  };
  while (pos < S.frontier.size() || inflight > 0) {
    if (vr::deadline_passed() && pos < S.frontier.size()) {
      aborted = true;
      pos = S.frontier.size();  // drain what is in flight, start nothing new
    }
    for (auto &w : workers)
      if (!w.busy && pos < S.frontier.size()) {
        send_req(w, S.index, false, S.frontier[pos++]);
        inflight++;
      }
    if (inflight == 0)
      break;
    std::vector<struct pollfd> pf;
    std::vector<int> idx;
    for (size_t i = 0; i < workers.size(); i++)
      if (workers[i].busy) {
        struct pollfd p;
        p.fd = workers[i].fd;
        p.events = POLLIN;
        p.revents = 0;
        pf.push_back(p);
        idx.push_back((int)i);
      }
    int r = poll(pf.data(), pf.size(), 1000);
    if (r <= 0)
      continue;
    for (size_t k = 0; k < pf.size(); k++)
      if (pf[k].revents & (POLLIN | POLLHUP)) {
        Worker &w = workers[idx[k]];
        Res res = recv_res(w);
        inflight--;
        handle(w.pre, res);
      }
  }
  if (aborted) {
    S.stopped = true;
    vr::capped(std::string(S.sc->name) + ": deviation level " + std::to_string(S.level) + " not completed (deadline or frontier cap); completed bound " +
        std::to_string(S.completed_bound));
  } else {
    S.completed_bound = S.level;
    S.frontier.swap(next);
    S.level++;
    if (S.level > S.bound || S.frontier.empty())
      S.stopped = true;
  }
}

int main(int argc, char **argv)
{
  vr::init(argc, argv);
  std::string only;
  std::vector<std::string> only_prefixes;
  int bound_override = -1, nworkers = 16;
  for (int i = 1; i < argc; i++) {
    std::string a = argv[i];
    if (a == "--scenario" && i + 1 < argc)
      only = argv[++i];
    else if (a == "--only-prefix" && i + 1 < argc)
      only_prefixes.push_back(argv[++i]);
    else if (a == "--bound" && i + 1 < argc)
      bound_override = atoi(argv[++i]);
    else if (a == "--workers" && i + 1 < argc)
      nworkers = atoi(argv[++i]);
    else if (a == "--tso-volatile")
      tso_volatile = true;
    else if (a == "--no-tso")
      tso_on = false;
    else if (a == "--no-state-cache")
      use_state_cache = false;
    else if (a == "--exec-timeout" && i + 1 < argc)
      exec_timeout_s = atoi(argv[++i]);
  }
  std::vector<McScenario *> scs;
  for (McScenario *s = mc_scenarios(); s; s = s->next)
    scs.push_back(s);
  if (vr::replaying()) {
    // "<scenario>;c0,c1,..."
    std::string r = vr::S().replay;
    size_t sc = r.find(';');
    std::string name = r.substr(0, sc);
    std::string rest = sc == std::string::npos ? "" : r.substr(sc + 1);
    size_t sp = rest.find(' ');
    if (sp != std::string::npos)
      rest = rest.substr(0, sp);
    std::vector<unsigned char> pre = parse_list(rest + ",");
    for (auto *s : scs)
      if (name == s->name) {
        int st = 0;
        Res res = parse_res(run_child(s, pre, true, &st), st);
        printf("scenario %s choices=[%s]\n", s->name, enc_choices(res.choices).c_str());
        std::string tr = res.trace;
        for (auto &c : tr)
          if (c == ';')
            c = '\n';
        printf("%s", tr.c_str());
        printf("events: %s\nsteps=%ld result: %s\n", res.events.c_str(), res.steps, res.code ? symbolize(res.sig).c_str() : "ok");
        if (res.code) {
          printf("detail: %s\n", res.detail.c_str());
          vr::violation(std::string(s->name) + "|" + symbolize(res.sig), r, res.detail);
        }
        vr::flush();
        return res.code ? 1 : 0;
      }
    printf("unknown scenario '%s'\n", name.c_str());
    return 2;
  }
  // workers
  for (int i = 0; i < nworkers; i++) {
    int sv[2];
    if (socketpair(AF_UNIX, SOCK_STREAM, 0, sv) != 0) {
      perror("socketpair");
      return 3;
    }
    fflush(stdout);
    pid_t pid = fork();
    if (pid == 0) {
      close(sv[0]);
      for (auto &w : workers)
        close(w.fd);
      worker_loop(sv[1], scs);
      _exit(0);
    }
    close(sv[1]);
    Worker w;
    w.fd = sv[0];
    w.pid = pid;
    w.busy = false;
    workers.push_back(w);
  }
  std::vector<ScenState> st;
  for (size_t i = 0; i < scs.size(); i++) {
    if (!only.empty() && only != scs[i]->name)
      continue;
    ScenState s;
    s.sc = scs[i];
    s.index = (int)i;
    s.bound = bound_override >= 0 ? bound_override : (vr::thorough() ? scs[i]->bound_thorough : scs[i]->bound_quick);
    if (!only_prefixes.empty()) {
      bool match = false;
      for (auto &pf : only_prefixes)
        match = match || strncmp(scs[i]->name, pf.c_str(), pf.size()) == 0;
      if (!match)
        continue;
    }
    if (s.bound < 0)
      continue;  // not part of this tier
    s.frontier.push_back(std::vector<unsigned char>());
    st.push_back(s);
  }
  // round-robin over scenarios, one deviation level at a time, so that every scenario
  // completes its low bounds before any one spends the budget on a high bound
  bool any = true;
  while (any) {
    any = false;
    for (auto &s : st)
      if (!s.stopped) {
        run_level(s);
        any = true;
      }
  }
  for (auto &w : workers) {
    close(w.fd);
    waitpid(w.pid, nullptr, 0);
  }
  long maxb = 0;
  for (auto &s : st) {
    // states: distinct happens-before states at choice points (state cache) or, without the cache, schedule-tree nodes
    vr::stat("states", use_state_cache ? (long)s.seen_states.size() + s.executions : s.points + s.executions);
    vr::stat("schedule_tree_nodes", s.points + s.executions);
    vr::stat("subtrees_pruned_by_state_cache", s.pruned);
    vr::stat("transitions", s.steps);
    vr::stat("traces", s.executions);
    vr::stat("evaluations", s.executions);
    vr::stat("failing_executions", s.failing);
    vr::stat("max_steps_per_execution", s.maxsteps);
    vr::stat("max_threads", s.maxthreads);
    if (s.completed_bound > maxb)
      maxb = s.completed_bound;
    vr::note(std::string(s.sc->name) + ": bound completed=" + std::to_string(s.completed_bound) + " (requested " + std::to_string(s.bound) +
        ") executions=" + std::to_string(s.executions) + " visible steps=" + std::to_string(s.steps) + " distinct outcomes=" +
        std::to_string(s.outcomes.size()) + " failing=" + std::to_string(s.failing) + " threads<=" + std::to_string(s.maxthreads));
    if (s.outcomes.size() <= 1 && s.executions > 50)
      vr::note(std::string(s.sc->name) + ": WARNING one outcome from many executions - nothing collided?");
  }
  vr::stat("max_bound_completed", maxb);
  return vr::finish();
}
