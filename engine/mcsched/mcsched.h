// mcsched - harness side API.
//
// A harness translation unit (compiled by g++ with -fsanitize=thread --param
// tsan-distinguish-volatile=1, linked WITHOUT the TSan runtime) registers closed
// multi-threaded scenarios.  mc.cpp provides main(), the cooperative scheduler, the fake
// __tsan_* runtime (every atomic / volatile / plain access of instrumented code is a
// callback), the pthread / semaphore / futex interposers, the happens-before race detector,
// the lifetime (quarantine) oracle and the deviation-bounded explorer.
#pragma once
#include <string>
#include <cstring>
#include <functional>
#include <map>
#include <mutex>
#include <set>
#include <sstream>
#include <vector>
// (harnesses must not depend on what the rkcommon headers happen to include: a change to the
// library's include lists must not turn into a harness build failure)
#include <algorithm>
#include <array>
#include <atomic>
#include <chrono>
#include <cmath>
#include <condition_variable>
#include <limits>
#include <memory>
#include <thread>
#include <utility>

extern "C" {
// append a token to this execution's observable outcome (what the explorer counts as
// "distinct outcomes"); also shown in replays
void mc_event(const char *s);
// report a violation of the property and end the execution
void mc_fail(const char *signature, const char *detail) __attribute__((noreturn));
// id of the calling modelled thread (0 = scenario main thread)
int mc_tid();
// a visible operation that only tells the scheduler "I am busy-waiting"
void mc_yield();
// number of visible steps so far (a logical clock)
long mc_steps();
// name of the scenario being executed (for programmatically registered scenario families)
const char *mc_scenario_name();
}

#define MC_CHECK(cond, sig, detail)   \
  do {                                \
    if (!(cond))                      \
      mc_fail((sig), (detail));       \
  } while (0)

struct McScenario
{
  const char *name;
  void (*fn)();
  int bound_quick;
  int bound_thorough;
  int max_steps;
  McScenario *next;
};

McScenario *&mc_scenarios();

struct McRegister
{
  McScenario s;
  McRegister(const char *n, void (*f)(), int bq, int bt, int max_steps = 20000)
  {
    s.name = n;
    s.fn = f;
    s.bound_quick = bq;
    s.bound_thorough = bt;
    s.max_steps = max_steps;
    // append at the end so scenarios run in declaration order
    McScenario **p = &mc_scenarios();
    while (*p)
      p = &(*p)->next;
    s.next = nullptr;
    *p = &s;
  }
};

// MC_SCENARIO(name, bound_quick, bound_thorough) { ...body run as modelled thread 0... }
#define MC_SCENARIO(name, bq, bt)                       \
  static void name();                                   \
  static McRegister mc_reg_##name(#name, name, bq, bt); \
  static void name()
#define MC_SCENARIO_STEPS(name, bq, bt, steps)                 \
  static void name();                                          \
  static McRegister mc_reg_##name(#name, name, bq, bt, steps); \
  static void name()

inline void mc_eventf(const std::string &s)
{
  mc_event(s.c_str());
}
