// Free-running cross-check of the mcsched harness bodies: the same scenarios, real threads, no
// scheduler, compiled and linked with the REAL ThreadSanitizer (or AddressSanitizer) runtime.
// Supplementary: it samples schedules, it never decides a property.  Each scenario is run N times
// in a forked child; a sanitizer report, a failed MC_CHECK, a crash or a hang is printed.
#include <sched.h>
#include <signal.h>
#include <sys/wait.h>
#include <unistd.h>
#include <cstdio>
#include <cstdlib>
#include <cstring>
#include <string>

#include "mcsched/mcsched.h"

McScenario *&mc_scenarios()
{
  static McScenario *head = nullptr;
  return head;
}
static const char *cur_name = "";
extern "C" {
void mc_event(const char *) {}
void mc_fail(const char *sig, const char *detail)
{
  fprintf(stderr, "MC_CHECK failed in %s: %s :: %s\n", cur_name, sig, detail);
  _exit(2);
}
int mc_tid() { return 0; }
void mc_yield() { sched_yield(); }
long mc_steps() { return 0; }
const char *mc_scenario_name() { return cur_name; }
}

int main(int argc, char **argv)
{
  int runs = 200, timeout_s = 20;
  std::string prefix;
  for (int i = 1; i < argc; i++) {
    if (!strcmp(argv[i], "--runs") && i + 1 < argc)
      runs = atoi(argv[++i]);
    else if (!strcmp(argv[i], "--only-prefix") && i + 1 < argc)
      prefix = argv[++i];
  }
  long total = 0, bad = 0;
  for (McScenario *s = mc_scenarios(); s; s = s->next) {
    if (!prefix.empty() && strncmp(s->name, prefix.c_str(), prefix.size()) != 0)
      continue;
    int failed = 0;
    for (int r = 0; r < runs; r++) {
      pid_t pid = fork();
      if (pid == 0) {
        cur_name = s->name;
        alarm(timeout_s);
        s->fn();
        _exit(0);
      }
      int st = 0;
      waitpid(pid, &st, 0);
      total++;
      if (!(WIFEXITED(st) && WEXITSTATUS(st) == 0)) {
        failed++;
        if (failed <= 2)
          printf("FREE-RUN PROBLEM scenario=%s run=%d status=%s%d\n", s->name, r, WIFSIGNALED(st) ? "signal " : "exit ", WIFSIGNALED(st) ? WTERMSIG(st) : WEXITSTATUS(st));
      }
    }
    bad += failed;
    printf("scenario %-28s runs=%d problems=%d\n", s->name, runs, failed);
    fflush(stdout);
  }
  printf("free-running cross-check: %ld runs, %ld problems\n", total, bad);
  return bad ? 1 : 0;
}
