// Reporting protocol between a harness executable and the ./check driver.
//
// A harness prints machine readable lines on stdout:
//   @STAT <key> <integer>        counters; the driver sums them over units (keys starting with max_ are max-ed)
//   @SAMPLE <text>               an explored case, written out
//   @OUTCOME <n>                 number of distinct observed outcomes in this unit
//   @VIOL <signature>\t<replay>\t<detail>
//   @NOTE <text>                 free text copied into the evidence
//   @CAPPED <text>               a deadline or cap was hit: the run is not exhaustive
//   @DONE                        normal completion (absence == the harness died)
//
// Everything here is header-only, C++11, and safe to call from several threads.
#pragma once
#include <unistd.h>
#include <sys/mman.h>
#include <sys/wait.h>
#include <signal.h>
#include <time.h>
#include <fcntl.h>
#include <cstdio>
#include <cstdlib>
#include <cstring>
#include <cstdint>
#include <string>
#include <vector>
#include <map>
#include <set>
#include <mutex>
#include <functional>
#include <sstream>
// (harnesses must not depend on what the rkcommon headers happen to include: a change to the
// library's include lists must not turn into a harness build failure)
#include <algorithm>
#include <array>
#include <atomic>
#include <chrono>
#include <cmath>
#include <condition_variable>
#include <limits>
#include <memory>
#include <thread>
#include <utility>

namespace vr {

inline double now_s()
{
  struct timespec ts;
  clock_gettime(CLOCK_MONOTONIC, &ts);
  return ts.tv_sec + 1e-9 * ts.tv_nsec;
}

struct State
{
  std::mutex m;
  std::map<std::string, long long> stats;
  std::vector<std::string> samples;
  std::set<std::string> sample_keys;
  std::set<uint64_t> outcomes;
  std::map<std::string, std::pair<std::string, std::string>> viols;  // sig -> (replay, detail)
  std::map<std::string, long long> viol_counts;
  std::vector<std::string> notes;
  std::vector<std::string> capped;
  double t0 = now_s();
  double deadline = 0;  // absolute, 0 = none
  size_t max_samples = 12;
  size_t max_viol_sigs = 200;
  std::string replay;  // --replay argument, empty if exploring
  std::string tier = "quick";
};

inline State &S()
{
  static State *s = new State();
  return *s;
}

inline uint64_t fnv(const void *p, size_t n, uint64_t h = 1469598103934665603ull)
{
  const unsigned char *c = (const unsigned char *)p;
  for (size_t i = 0; i < n; i++) {
    h ^= c[i];
    h *= 1099511628211ull;
  }
  return h;
}
inline uint64_t fnv(const std::string &s, uint64_t h = 1469598103934665603ull)
{
  return fnv(s.data(), s.size(), h);
}

// one-line, tab-free, printable
inline std::string clean(const std::string &s)
{
  std::string o;
  for (unsigned char c : s) {
    if (c == '\n' || c == '\t' || c == '\r')
      o += ' ';
    else if (c < 32 || c > 126) {
      char b[8];
      snprintf(b, sizeof b, "\\x%02x", c);
      o += b;
    } else
      o += (char)c;
  }
  return o;
}

inline void stat(const std::string &k, long long v = 1)
{
  std::lock_guard<std::mutex> g(S().m);
  if (k.compare(0, 4, "max_") == 0) {
    auto &e = S().stats[k];
    if (v > e)
      e = v;
  } else
    S().stats[k] += v;
}

// a sample is kept if its class (default: the text itself) was not seen yet
inline void sample(const std::string &text, const std::string &cls = "")
{
  std::lock_guard<std::mutex> g(S().m);
  if (S().samples.size() >= S().max_samples)
    return;
  if (!S().sample_keys.insert(cls.empty() ? text : cls).second)
    return;
  S().samples.push_back(clean(text));
}

inline void outcome(uint64_t h)
{
  std::lock_guard<std::mutex> g(S().m);
  if (S().outcomes.size() < 2000000)
    S().outcomes.insert(h);
}
inline void outcome(const std::string &s)
{
  outcome(fnv(s));
}

inline void note(const std::string &s)
{
  std::lock_guard<std::mutex> g(S().m);
  S().notes.push_back(clean(s));
}
inline void capped(const std::string &s)
{
  std::lock_guard<std::mutex> g(S().m);
  S().capped.push_back(clean(s));
}

// signature: stable class of the failure (what the known-findings file lists)
// replay:    the concrete case, in the harness's own --replay syntax
inline void violation(const std::string &sig, const std::string &replay, const std::string &detail)
{
  std::lock_guard<std::mutex> g(S().m);
  S().viol_counts[sig]++;
  auto it = S().viols.find(sig);
  if (it == S().viols.end()) {
    if (S().viols.size() < S().max_viol_sigs)
      S().viols[sig] = std::make_pair(clean(replay), clean(detail));
  } else if (replay.size() < it->second.first.size()) {
    it->second = std::make_pair(clean(replay), clean(detail));  // keep the shortest
  }
}

inline bool deadline_passed()
{
  return S().deadline > 0 && now_s() > S().deadline;
}
inline bool replaying()
{
  return !S().replay.empty();
}
inline bool thorough()
{
  return S().tier == "thorough";
}

// common command line: --tier quick|thorough --deadline-s N --replay STR
inline void init(int argc, char **argv)
{
  setvbuf(stdout, nullptr, _IOLBF, 0);
  for (int i = 1; i < argc; i++) {
    std::string a = argv[i];
    if (a == "--tier" && i + 1 < argc)
      S().tier = argv[++i];
    else if (a == "--deadline-s" && i + 1 < argc)
      S().deadline = S().t0 + atof(argv[++i]);
    else if (a == "--replay" && i + 1 < argc)
      S().replay = argv[++i];
  }
}

inline void flush(FILE *f = stdout, bool done = true)
{
  std::lock_guard<std::mutex> g(S().m);
  for (auto &kv : S().stats)
    fprintf(f, "@STAT %s %lld\n", kv.first.c_str(), kv.second);
  for (auto &s : S().samples)
    fprintf(f, "@SAMPLE %s\n", s.c_str());
  fprintf(f, "@OUTCOME %zu\n", S().outcomes.size());
  for (auto &kv : S().viols)
    fprintf(f, "@VIOL %s\t%s\t%s (x%lld)\n", clean(kv.first).c_str(), kv.second.first.c_str(),
        kv.second.second.c_str(), S().viol_counts[kv.first]);
  for (auto &s : S().notes)
    fprintf(f, "@NOTE %s\n", s.c_str());
  for (auto &s : S().capped)
    fprintf(f, "@CAPPED %s\n", s.c_str());
  if (done)
    fprintf(f, "@DONE\n");
  fflush(f);
}

inline int finish()
{
  flush();
  return 0;
}

// ---------------------------------------------------------------------------------------
// Free-running harnesses (real threads, no scheduler): a call that never returns must become a
// violation with the case's replay string, not a unit time-out.  CaseWatch arms a watchdog thread
// for the duration of one case; on expiry the report so far is written and the process ends.
// ---------------------------------------------------------------------------------------
struct WatchState
{
  std::mutex m;
  std::string sig, replay;
  double start = 0, limit = 0;
  bool running = false;
};
inline WatchState &W()
{
  static WatchState w;
  return w;
}
inline void watchdog_loop()
{
  for (;;) {
    usleep(200000);
    std::string sig, rp;
    double lim = 0;
    {
      std::lock_guard<std::mutex> g(W().m);
      if (W().limit > 0 && now_s() - W().start > W().limit) {
        sig = W().sig;
        rp = W().replay;
        lim = W().limit;
      }
    }
    if (rp.empty())
      continue;
    violation(sig + "|the call did not return", rp, "no return within " + std::to_string((int)lim) + " s");
    capped("the cases after " + rp + " were not run (the process was stopped inside a call that does not return)");
    if (replaying())
      printf("VIOLATED %s|the call did not return :: no return within %d s\n", sig.c_str(), (int)lim);
    flush();
    _exit(replaying() ? 1 : 0);
  }
}
struct CaseWatch
{
  CaseWatch(const std::string &sig, const std::string &replay, double limit_s = 60)
  {
    std::lock_guard<std::mutex> g(W().m);
    if (!W().running) {
      W().running = true;
      std::thread(watchdog_loop).detach();
    }
    W().sig = sig;
    W().replay = replay;
    W().start = now_s();
    W().limit = limit_s;
  }
  ~CaseWatch()
  {
    std::lock_guard<std::mutex> g(W().m);
    W().limit = 0;
  }
};

// ---------------------------------------------------------------------------------------
// Forked shards with crash attribution.
//
// run_sharded(n, body): body(shard, resume_after) enumerates the cases of one shard in a
// deterministic order, calling vr::begin_case(index, signature_context, replay) before each
// case with index > resume_after.  Each shard runs in a forked child whose reports are merged
// into the parent.  If the child dies (sanitizer abort, signal, timeout alarm), the parent
// records a violation "<signature_context>|<how it died>" with the case's replay string and
// restarts the shard after that case.
// ---------------------------------------------------------------------------------------
struct Slot
{
  volatile long long index;
  char sig[256];
  char replay[3584];
};

inline Slot *&my_slot()
{
  static Slot *s = nullptr;
  return s;
}

// per-case time limit of the running shard (0 = none): re-armed by every begin_case, so that a case that never
// returns ends its child with SIGALRM and is attributed like any other death ("<context>|signal:Alarm clock")
inline int &case_timeout_s()
{
  static int t = 0;
  return t;
}
inline void begin_case(long long index, const std::string &sigctx, const std::string &replay)
{
  Slot *s = my_slot();
  if (!s)
    return;
  if (case_timeout_s() > 0)
    alarm(case_timeout_s());
  s->index = index;
  snprintf(s->sig, sizeof s->sig, "%s", sigctx.c_str());
  snprintf(s->replay, sizeof s->replay, "%s", replay.c_str());
}

inline std::string classify_death(int status, const std::string &errtext)
{
  std::string how;
  size_t p;
  if ((p = errtext.find("ERROR: AddressSanitizer: ")) != std::string::npos) {
    size_t q = errtext.find_first_of(" \n", p + 25);
    how = "asan:" + errtext.substr(p + 25, q - (p + 25));
  } else if ((p = errtext.find("ERROR: LeakSanitizer")) != std::string::npos) {
    how = "lsan:leak";
  } else if ((p = errtext.find("runtime error: ")) != std::string::npos) {
    size_t q = errtext.find('\n', p);
    std::string msg = errtext.substr(p + 15, q - (p + 15));
    // drop addresses and numbers so the class is stable
    std::string o;
    for (size_t i = 0; i < msg.size(); i++) {
      if (msg.compare(i, 2, "0x") == 0) {
        o += "ADDR";
        i += 2;
        while (i < msg.size() && isxdigit((unsigned char)msg[i]))
          i++;
        i--;
      } else
        o += msg[i];
    }
    if (o.size() > 90)
      o.resize(90);
    how = "ubsan:" + o;
  } else if (WIFSIGNALED(status)) {
    how = std::string("signal:") + strsignal(WTERMSIG(status));
  } else {
    how = "exit:" + std::to_string(WEXITSTATUS(status));
  }
  return how;
}

inline void merge_child_output(const std::string &buf)
{
  std::istringstream is(buf);
  std::string line;
  while (std::getline(is, line)) {
    if (line.compare(0, 6, "@STAT ") == 0) {
      size_t sp = line.rfind(' ');
      stat(line.substr(6, sp - 6), atoll(line.c_str() + sp + 1));
    } else if (line.compare(0, 8, "@SAMPLE ") == 0) {
      sample(line.substr(8));
    } else if (line.compare(0, 6, "@VIOL ") == 0) {
      size_t a = line.find('\t'), b = line.find('\t', a + 1);
      if (a != std::string::npos && b != std::string::npos)
        violation(line.substr(6, a - 6), line.substr(a + 1, b - a - 1), line.substr(b + 1));
    } else if (line.compare(0, 6, "@NOTE ") == 0) {
      note(line.substr(6));
    } else if (line.compare(0, 8, "@CAPPED ") == 0) {
      capped(line.substr(8));
    } else if (line.compare(0, 5, "@OUT ") == 0) {
      outcome((uint64_t)strtoull(line.c_str() + 5, nullptr, 16));
    }
  }
}

inline void run_sharded(int nshards, const std::function<void(int, long long)> &body, int maxpar = 16,
    int per_case_timeout_s = 0)
{
  if (replaying()) {  // in replay mode there is no forking: run shard bodies inline is the harness's job
    return;
  }
  Slot *slots = (Slot *)mmap(nullptr, sizeof(Slot) * nshards, PROT_READ | PROT_WRITE,
      MAP_SHARED | MAP_ANONYMOUS, -1, 0);
  struct Child
  {
    pid_t pid;
    int shard;
    int fd;
    std::string errpath;
    std::string buf;
  };
  std::vector<Child> live;
  std::vector<long long> resume(nshards, -1);
  std::vector<int> restarts(nshards, 0);
  int alarm_deaths = 0;
  std::vector<int> todo;
  for (int i = nshards - 1; i >= 0; i--)
    todo.push_back(i);
  auto spawn = [&](int shard) {
    int fds[2];
    if (pipe(fds) != 0) {
      perror("pipe");
      exit(3);
    }
    char ep[128];
    snprintf(ep, sizeof ep, "/dev/shm/vr-%d-%d.err", (int)getpid(), shard);
    slots[shard].index = resume[shard];
    fflush(stdout);
    pid_t pid = fork();
    if (pid == 0) {
      close(fds[0]);
      int efd = open(ep, O_WRONLY | O_CREAT | O_TRUNC, 0600);
      if (efd >= 0) {
        dup2(efd, 2);
        close(efd);
      }
      my_slot() = &slots[shard];
      // fresh report state in the child
      S().stats.clear();
      S().samples.clear();
      S().sample_keys.clear();
      S().outcomes.clear();
      S().viols.clear();
      S().viol_counts.clear();
      S().notes.clear();
      S().capped.clear();
      case_timeout_s() = per_case_timeout_s;
      if (per_case_timeout_s > 0)
        alarm(per_case_timeout_s);
      body(shard, resume[shard]);
      alarm(0);
      FILE *f = fdopen(fds[1], "w");
      {
        std::lock_guard<std::mutex> g(S().m);
        for (auto h : S().outcomes)
          fprintf(f, "@OUT %llx\n", (unsigned long long)h);
      }
      flush(f, true);
      fclose(f);
      _exit(0);
    }
    close(fds[1]);
    Child c;
    c.pid = pid;
    c.shard = shard;
    c.fd = fds[0];
    c.errpath = ep;
    live.push_back(c);
  };
  while (!todo.empty() || !live.empty()) {
    while (!todo.empty() && (int)live.size() < maxpar) {
      int s = todo.back();
      todo.pop_back();
      spawn(s);
    }
    // read from all live children until one finishes
    fd_set rs;
    FD_ZERO(&rs);
    int mx = -1;
    for (auto &c : live) {
      FD_SET(c.fd, &rs);
      if (c.fd > mx)
        mx = c.fd;
    }
    struct timeval tv = {1, 0};
    int r = select(mx + 1, &rs, nullptr, nullptr, &tv);
    if (r <= 0)
      continue;
    for (size_t i = 0; i < live.size();) {
      Child &c = live[i];
      if (!FD_ISSET(c.fd, &rs)) {
        i++;
        continue;
      }
      char tmp[65536];
      ssize_t n = read(c.fd, tmp, sizeof tmp);
      if (n > 0) {
        c.buf.append(tmp, n);
        i++;
        continue;
      }
      // EOF: child finished or died
      close(c.fd);
      int status = 0;
      waitpid(c.pid, &status, 0);
      bool done = c.buf.find("@DONE") != std::string::npos;
      std::string err;
      {
        FILE *f = fopen(c.errpath.c_str(), "r");
        if (f) {
          char b[4096];
          size_t k;
          while ((k = fread(b, 1, sizeof b, f)) > 0 && err.size() < (1u << 20))
            err.append(b, k);
          fclose(f);
        }
        unlink(c.errpath.c_str());
      }
      merge_child_output(c.buf);
      int shard = c.shard;
      live.erase(live.begin() + i);
      if (!(done && WIFEXITED(status) && WEXITSTATUS(status) == 0)) {
        Slot &sl = slots[shard];
        std::string how = classify_death(status, err);
        std::string firstline = err.substr(0, err.find('\n', err.find("ERROR") == std::string::npos ? 0 : err.find("ERROR")));
        if (firstline.size() > 300)
          firstline.resize(300);
        violation(std::string(sl.sig) + "|" + how, sl.replay, "case died: " + how + " :: " + firstline);
        stat("crashed_cases", 1);
        // a case that does not return costs a full time limit: after the third such case a shard is given up at its
        // next one (the violation is recorded either way; what was skipped is reported as capped)
        const bool timed_out = WIFSIGNALED(status) && WTERMSIG(status) == SIGALRM;
        if (timed_out)
          alarm_deaths++;
        if (timed_out && alarm_deaths > 3) {
          capped("shard " + std::to_string(shard) + " abandoned: several cases did not return within the time limit (last: " + std::string(sl.replay).substr(0, 120) + ")");
        } else if (sl.index > resume[shard] && restarts[shard] < 2000) {
          resume[shard] = sl.index;
          restarts[shard]++;
          todo.push_back(shard);
        } else {
          capped("shard " + std::to_string(shard) + " abandoned after a crash without progress");
        }
      }
    }
  }
  munmap(slots, sizeof(Slot) * nshards);
}

}  // namespace vr
